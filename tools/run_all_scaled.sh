#!/bin/bash
# Every check once in a tier at a fraction of its budget: tools/run_all_scaled.sh <tier> <seed> <scale>
cd "$(dirname "$0")/.." || exit 2
[ -d .deps ] || ./setup.sh >/dev/null 2>&1
TIER="${1:-thorough}"; export VERIF_SEED="${2:-1}"; SCALE="${3:-0.25}"
rc=0
for p in C01 C02 C03 C04 C05 C06 C07 C08 C09 C10 C11 C12 C13 C14 C15 C16 C17 C18 C19 C20; do
  out=$(./check $p --tier $TIER --scale $SCALE 2>&1); r=$?
  echo "$out" | grep -E "^(C[0-9]+ tier|VIOLATION|HARNESS)" | cut -c1-200
  [ $r -ne 0 ] && { rc=1; echo "  exit=$r"; echo "$out" | grep -A12 "^---" | cut -c1-500 | head -60; }
done
exit $rc
