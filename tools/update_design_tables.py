#!/usr/bin/env python3
"""Regenerate the tables of DESIGN.md sections 8.4 (seeded changes) and 8.5 (lanes) in place."""
import os, subprocess, sys
root = os.path.dirname(os.path.dirname(os.path.abspath(__file__)))
path = os.path.join(root, 'DESIGN.md')
lines = open(path).read().split('\n')


def replace_table(lines, heading, new_rows):
    i = next(k for k, l in enumerate(lines) if l.startswith(heading))
    a = next(k for k in range(i, len(lines)) if lines[k].startswith('|'))
    b = a
    while b < len(lines) and lines[b].startswith('|'):
        b += 1
    return lines[:a] + new_rows + lines[b:]


def out(script):
    py = '/venv/bin/python' if os.path.exists('/venv/bin/python') else sys.executable
    return subprocess.run([py, os.path.join(root, 'tools', script)], capture_output=True, text=True, check=True,
                          env=dict(os.environ, PYTHONHASHSEED='0')).stdout.strip().split('\n')


lines = replace_table(lines, '### 8.4', out('seed_table.py'))
lines = replace_table(lines, '### 8.5', out('lanes_table.py'))
open(path, 'w').write('\n'.join(lines))
