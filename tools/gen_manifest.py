#!/usr/bin/env python3
"""Regenerate MANIFEST.json from the table below (one entry per claimed property)."""
import json
import os
import subprocess

ROOT = os.path.dirname(os.path.dirname(os.path.abspath(__file__)))

# id -> (technique, level text, level note, design ref)
CHECKS = {}


def add(pid, technique, text, note, ref):
    CHECKS[pid] = (technique, text, note, ref)


NOT_APPLICABLE = {}

exec(open(os.path.join(ROOT, 'tools', 'manifest_table.py')).read())


def hook_commits():
    return []


def main():
    checks = []
    for pid in sorted(CHECKS):
        technique, text, note, ref = CHECKS[pid]
        checks.append({
            'property_id': pid,
            'quick_cmd': './check %s --tier quick' % pid,
            'thorough_cmd': './check %s --tier thorough' % pid,
            'evidence_file': 'evidence/%s.json' % pid,
            'replay_cmd_template': './check %s --replay {path}' % pid,
            'engine': 'hypothesis-runner',
            'level_claimed': {'category': 'exploration', 'text': text, 'design_ref': ref},
            'level_note': note,
            'technique': technique,
        })
    props = [json.loads(l)['id'] for l in open(os.path.join(ROOT, 'properties.jsonl')) if l.strip()]
    na = []
    for pid in props:
        if pid not in CHECKS:
            na.append({'property_id': pid, 'reason': NOT_APPLICABLE.get(pid, 'check not built yet in this revision')})
    m = {
        'version': 1,
        'setup_cmd': './setup.sh',
        'hooks': {
            'guard': 'RTAMT_VERIF',
            'enable': 'no hooks are needed: every property is observed through the public API of /repo as it is (PYTHONPATH=/repo)',
            'baseline_off_cmd': 'cd /repo && /venv/bin/python -m pytest -q -p no:cacheprovider --timeout=900 --continue-on-collection-errors',
            'source_commits': hook_commits(),
            'add_only': True,
        },
        'engines': [
            {'name': 'hypothesis-runner', 'path': 'vlib/runner.py', 'serves_properties': sorted(CHECKS),
             'kind_free_text': 'Hypothesis 6.168 strategies (typed STL grammar, traces, schedules, rule-based machines) sharded over 16 '
                               'processes, explicit oracles (reference semantics, differential, metamorphic, validity), failure '
                               'bucketing, bounded shrinking, JSON replay files'},
        ],
        'checks': checks,
        'not_applicable': na,
        'notes': 'All checks run /repo\'s working tree through PYTHONPATH (pure Python, no build). VERIF_SEED selects the run; '
                 'KNOWN_FINDINGS.txt lists open findings and fixed defects.',
    }
    with open(os.path.join(ROOT, 'MANIFEST.json'), 'w') as fh:
        json.dump(m, fh, indent=1)
    print('MANIFEST.json: %d checks, %d not applicable' % (len(checks), len(na)))


if __name__ == '__main__':
    main()
