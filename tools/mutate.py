#!/usr/bin/env python3
"""Mutation run: how many small source changes of rtamt that the pinned suite does not notice do the checks notice?

  tools/mutate.py --sample 200 --seed 1 --jobs 4 [--files 'rtamt/semantics/**/*.py' ...] [--out .work/mutation/run1.jsonl]

For every sampled mutant (one operator / constant / call changed in one place) the tool
  1. writes the changed file into a scratch worktree of /repo under /tmp (one per job, removed at the end),
  2. runs the repository's pinned suite there; a mutant that fails it is 'killed-by-suite' (not interesting),
  3. otherwise runs the checks (quick tier, reduced budget) against the worktree (VERIF_REPO), the ones mapped to the
     file first, and stops at the first check that reports a VIOLATION: 'killed-by:<ID>',
  4. a mutant that passes all 20 checks is a 'survivor': an equivalent mutant or a gap of the checks (to be looked at).
Results are appended to a JSON-lines file; tools/mutate.py --report FILE prints the summary.
This is a sensitivity measurement of the machinery (DESIGN.md section 8.6), not a registered check.
"""
import argparse
import ast
import glob
import json
import os
import random
import subprocess
import sys
import tempfile
from concurrent.futures import ThreadPoolExecutor

ROOT = os.path.dirname(os.path.dirname(os.path.abspath(__file__)))
REPO = '/repo'
ALL = ['C%02d' % i for i in range(1, 21)]

DEFAULT_FILES = [
    'rtamt/semantics/**/*.py',
    'rtamt/syntax/ast/visitor/**/*.py',
    'rtamt/syntax/ast/parser/**/parser_visitor.py',
    'rtamt/syntax/ast/parser/abstract_ast_parser.py',
    'rtamt/syntax/node/**/*.py',
    'rtamt/spec/**/*.py',
    'rtamt/explanation/**/*.py',
    'rtamt/pastifier/**/*.py',
]

# checks tried first, by path fragment (the rest follow in numeric order)
FIRST = [
    ('explanation', ['C20']),
    ('iastl', ['C06']),
    ('dense_time/online', ['C05', 'C10', 'C19', 'C07', 'C06', 'C09']),
    ('dense_time/offline', ['C04', 'C19', 'C16', 'C18', 'C07']),
    ('dense_time', ['C04', 'C05', 'C08', 'C19']),
    ('discrete_time/online', ['C02', 'C10', 'C03', 'C18', 'C09']),
    ('discrete_time/offline', ['C01', 'C16', 'C18', 'C20', 'C19']),
    ('pastifier', ['C03', 'C09', 'C12', 'C08', 'C15']),
    ('horizon', ['C03', 'C09', 'C12']),
    ('parser', ['C14', 'C15', 'C08', 'C01']),
    ('syntax/node', ['C02', 'C09', 'C12', 'C08', 'C01']),
    ('spec', ['C13', 'C17', 'C11', 'C12', 'C08', 'C10', 'C09']),
    ('semantics', ['C01', 'C02', 'C08', 'C13', 'C04', 'C05']),
]

CMP = {ast.Lt: ('<', '<='), ast.LtE: ('<=', '<'), ast.Gt: ('>', '>='), ast.GtE: ('>=', '>'), ast.Eq: ('==', '!='), ast.NotEq: ('!=', '==')}
BINOP = {ast.Add: ('+', '-'), ast.Sub: ('-', '+')}
CALLS = {'min': 'max', 'max': 'min'}


def seg(lines, l0, c0, l1, c1):
    if l0 != l1:
        return None
    return lines[l0 - 1][c0:c1]


def enumerate_mutants(path, src):
    """Yield (lineno, col_start, col_end, old_text, new_text, kind)."""
    try:
        tree = ast.parse(src)
    except SyntaxError:
        return
    lines = src.split('\n')
    for node in ast.walk(tree):
        if isinstance(node, ast.Compare) and len(node.ops) == 1 and type(node.ops[0]) in CMP:
            l, r = node.left, node.comparators[0]
            if l.end_lineno == r.lineno:
                between = lines[l.end_lineno - 1][l.end_col_offset:r.col_offset]
                old, new = CMP[type(node.ops[0])]
                i = between.find(old)
                if i >= 0 and between.strip(' ()') == old:
                    yield (l.end_lineno, l.end_col_offset + i, l.end_col_offset + i + len(old), old, new, 'cmp')
        elif isinstance(node, ast.BinOp) and type(node.op) in BINOP:
            l, r = node.left, node.right
            if isinstance(l, ast.Constant) and isinstance(l.value, str) or isinstance(r, ast.Constant) and isinstance(r.value, str):
                continue
            if l.end_lineno == r.lineno:
                between = lines[l.end_lineno - 1][l.end_col_offset:r.col_offset]
                old, new = BINOP[type(node.op)]
                if between.strip(' ()') == old:
                    i = between.find(old)
                    yield (l.end_lineno, l.end_col_offset + i, l.end_col_offset + i + 1, old, new, 'arith')
        elif isinstance(node, ast.Call) and isinstance(node.func, ast.Name) and node.func.id in CALLS:
            f = node.func
            yield (f.lineno, f.col_offset, f.end_col_offset, f.id, CALLS[f.id], 'minmax')
        elif isinstance(node, ast.BoolOp):
            a, b = node.values[0], node.values[1]
            if a.end_lineno == b.lineno:
                between = lines[a.end_lineno - 1][a.end_col_offset:b.col_offset]
                old = 'and' if isinstance(node.op, ast.And) else 'or'
                new = 'or' if old == 'and' else 'and'
                if between.strip(' ()') == old:
                    i = between.find(old)
                    yield (a.end_lineno, a.end_col_offset + i, a.end_col_offset + i + len(old), old, new, 'bool')
        elif isinstance(node, ast.UnaryOp) and isinstance(node.op, ast.USub) and node.lineno == node.operand.lineno:
            yield (node.lineno, node.col_offset, node.operand.col_offset, lines[node.lineno - 1][node.col_offset:node.operand.col_offset], '', 'neg')
        elif isinstance(node, ast.UnaryOp) and isinstance(node.op, ast.Not) and node.lineno == node.operand.lineno:
            yield (node.lineno, node.col_offset, node.operand.col_offset, lines[node.lineno - 1][node.col_offset:node.operand.col_offset], '', 'not')
        elif isinstance(node, ast.Constant) and isinstance(node.value, int) and not isinstance(node.value, bool) and node.value in (0, 1) \
                and node.lineno == node.end_lineno:
            txt = lines[node.lineno - 1][node.col_offset:node.end_col_offset]
            if txt in ('0', '1'):
                yield (node.lineno, node.col_offset, node.end_col_offset, txt, '1' if txt == '0' else '0', 'const')
        elif isinstance(node, ast.Constant) and isinstance(node.value, bool) and node.lineno == node.end_lineno:
            txt = lines[node.lineno - 1][node.col_offset:node.end_col_offset]
            if txt in ('True', 'False'):
                yield (node.lineno, node.col_offset, node.end_col_offset, txt, 'False' if txt == 'True' else 'True', 'boolconst')
        elif isinstance(node, ast.Expr) and isinstance(node.value, ast.Call) and node.lineno == node.end_lineno:
            # statement deletion: a call evaluated for its effect (append, pop, reset ...)
            txt = lines[node.lineno - 1][node.col_offset:node.end_col_offset]
            if not txt.startswith(('print', 'logging', 'super', 'raise')):
                yield (node.lineno, node.col_offset, node.end_col_offset, txt, 'pass', 'delcall')


def order_checks(relpath):
    first = []
    for frag, ids in FIRST:
        if frag in relpath:
            for i in ids:
                if i not in first:
                    first.append(i)
    return first + [i for i in ALL if i not in first]


def sh(cmd, cwd=None, env=None, timeout=None):
    try:
        p = subprocess.run(cmd, cwd=cwd, env=env, shell=isinstance(cmd, str), capture_output=True, text=True, timeout=timeout)
        return p.returncode, p.stdout + p.stderr
    except subprocess.TimeoutExpired as e:
        return 124, (e.stdout or '') if isinstance(e.stdout, str) else ''


def run_mutant(m, wt, scale, workers, checks_only):
    rel = m['file']
    orig = open(os.path.join(wt, rel)).read()       # the worktree is a snapshot of HEAD taken when the run started
    lines = orig.split('\n')
    ln = lines[m['line'] - 1]
    assert ln[m['c0']:m['c1']] == m['old'], (ln, m)
    lines[m['line'] - 1] = ln[:m['c0']] + m['new'] + ln[m['c1']:]
    target = os.path.join(wt, rel)
    with open(target, 'w') as fh:
        fh.write('\n'.join(lines))
    res = dict(m)
    res['source_line'] = ln.strip()
    try:
        env = dict(os.environ, PYTHONPATH=wt, PYTHONDONTWRITEBYTECODE='1')
        rc, out = sh('/venv/bin/python -m pytest -q -p no:cacheprovider --timeout=300 --continue-on-collection-errors -n 4 2>&1 | tail -3', cwd=wt, env=env, timeout=1200)
        if '509 passed' not in out:
            res['outcome'] = 'killed-by-suite'
            return res
        res['tried'] = []
        env = dict(os.environ, VERIF_REPO=wt, VERIF_WORKERS=str(workers), VERIF_SEED=str(m.get('seed', 1)))
        order = [c for c in order_checks(rel) if not checks_only or c in checks_only]
        for cid in order:
            rc, out = sh([os.path.join(ROOT, 'check'), cid, '--tier', 'quick', '--scale', str(scale)], cwd=ROOT, env=env, timeout=3000)
            res['tried'].append([cid, rc])
            if rc == 1:
                res['outcome'] = 'killed-by:' + cid
                res['bucket'] = [l for l in out.split('\n') if l.startswith('--- failure bucket')][:3]
                return res
        res['outcome'] = 'survived'
        return res
    finally:
        with open(target, 'w') as fh:
            fh.write(orig)


def report(path):
    rows = [json.loads(l) for l in open(path) if l.strip()]
    from collections import Counter
    c = Counter(r['outcome'].split(':')[0] for r in rows)
    print('mutants: %d   %s' % (len(rows), dict(c)))
    alive = [r for r in rows if r['outcome'] != 'killed-by-suite']
    killed = [r for r in alive if r['outcome'].startswith('killed-by:')]
    print('not noticed by the pinned suite: %d, of these noticed by a check: %d (%.1f%%)' % (len(alive), len(killed), 100.0 * len(killed) / max(1, len(alive))))
    print('killing check:', dict(Counter(r['outcome'].split(':')[1] for r in killed)))
    for r in rows:
        if r['outcome'] == 'survived':
            print('SURVIVOR %s:%d [%s] %r -> %r   | %s' % (r['file'], r['line'], r['kind'], r['old'], r['new'], r['source_line'][:110]))
        elif any(x[1] == 2 for x in r.get('tried', [])):
            print('HARNESS-ERROR during %s:%d %s' % (r['file'], r['line'], [x for x in r['tried'] if x[1] == 2]))


def main():
    ap = argparse.ArgumentParser()
    ap.add_argument('--files', nargs='*', default=DEFAULT_FILES)
    ap.add_argument('--sample', type=int, default=100)
    ap.add_argument('--seed', type=int, default=1)
    ap.add_argument('--jobs', type=int, default=4)
    ap.add_argument('--workers', type=int, default=4, help='worker processes per check')
    ap.add_argument('--scale', type=float, default=0.34)
    ap.add_argument('--out', default=os.path.join(ROOT, '.work', 'mutation', 'run.jsonl'))
    ap.add_argument('--checks', nargs='*', default=None)
    ap.add_argument('--list', action='store_true')
    ap.add_argument('--report')
    a = ap.parse_args()
    if a.report:
        return report(a.report)
    wts = []
    for j in range(a.jobs if not a.list else 1):
        d = tempfile.mkdtemp(prefix='mut_wt_', dir='/tmp')
        os.rmdir(d)
        subprocess.run(['git', '-C', REPO, 'worktree', 'add', '-q', d, 'HEAD'], check=True)
        wts.append(d)
    snap = wts[0]           # mutants are enumerated from the snapshot, so that /repo may move on while the run lasts
    muts = []
    files = sorted(set(f for g in a.files for f in glob.glob(os.path.join(snap, g), recursive=True)))
    for f in files:
        rel = os.path.relpath(f, snap)
        if rel.endswith('__init__.py') or '/antlr/' in rel or 'cpp' in rel.lower() or '/ros' in rel:
            continue
        src = open(f).read()
        for (line, c0, c1, old, new, kind) in enumerate_mutants(f, src):
            muts.append({'file': rel, 'line': line, 'c0': c0, 'c1': c1, 'old': old, 'new': new, 'kind': kind})
    print('%d mutants in %d files' % (len(muts), len(files)))
    if a.list:
        from collections import Counter
        print(Counter(m['kind'] for m in muts))
        print(Counter(os.path.dirname(m['file']) for m in muts).most_common(40))
        subprocess.run(['git', '-C', REPO, 'worktree', 'remove', '--force', snap])
        return
    rnd = random.Random(a.seed)
    rnd.shuffle(muts)
    done = set()
    if os.path.exists(a.out):
        for l in open(a.out):
            r = json.loads(l)
            done.add((r['file'], r['line'], r['c0'], r['new']))
    todo = [m for m in muts if (m['file'], m['line'], m['c0'], m['new']) not in done][:a.sample]
    os.makedirs(os.path.dirname(a.out), exist_ok=True)
    import queue
    free = queue.Queue()
    for d in wts:
        free.put(d)

    def job(m):
        wt = free.get()
        try:
            m = dict(m, seed=a.seed)
            r = run_mutant(m, wt, a.scale, a.workers, a.checks)
        except Exception as e:  # noqa
            r = dict(m, outcome='tool-error:%r' % (e,))
        finally:
            free.put(wt)
        with open(a.out, 'a') as fh:
            fh.write(json.dumps(r) + '\n')
        print('%-22s %s:%d %s %r->%r' % (r['outcome'], r['file'], r['line'], r['kind'], r['old'], r['new']), flush=True)
        return r
    try:
        with ThreadPoolExecutor(a.jobs) as ex:
            list(ex.map(job, todo))
    finally:
        for d in wts:
            subprocess.run(['git', '-C', REPO, 'worktree', 'remove', '--force', d])
    report(a.out)


if __name__ == '__main__':
    sys.exit(main())
