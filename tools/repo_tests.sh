#!/bin/bash
# Run the repository's pinned suite (509 tests) against a tree (default /repo); prints the summary line.
R="${1:-/repo}"
cd "$R" && PYTHONPATH="$R" PYTHONDONTWRITEBYTECODE=1 /venv/bin/python -m pytest -q -p no:cacheprovider --timeout=900 --continue-on-collection-errors -n 8 2>&1 | tail -3
