#!/bin/bash
# tools/try_seed.sh <patch.diff> [<demo.py>] -- <ID> [<ID> ...]
# Applies a seeded change to a scratch worktree of /repo (outside /repo and /verif), runs the pinned suite, the
# demonstration (if given) and the listed checks (quick tier) against it, then removes the worktree.
PATCH="$1"; shift
DEMO=""
if [ "$1" != "--" ]; then DEMO="$1"; shift; fi
shift
WT=$(mktemp -d /tmp/wt_seed_XXXX); rmdir "$WT"
git -C /repo worktree add -q "$WT" HEAD || exit 2
trap 'git -C /repo worktree remove --force "$WT" 2>/dev/null' EXIT
git -C "$WT" apply "$PATCH" || { echo "patch does not apply"; exit 2; }
echo "== suite: $(/verif/tools/repo_tests.sh "$WT" | tail -1)"
if [ -n "$DEMO" ]; then
  (cd /tmp && PYTHONPATH=/repo /venv/bin/python "$DEMO" >/dev/null 2>&1); echo "== demo on clean tree: exit $?"
  (cd /tmp && PYTHONPATH="$WT" /venv/bin/python "$DEMO" >/dev/null 2>&1); echo "== demo with change:   exit $?"
fi
for p in "$@"; do
  out=$(cd /verif && VERIF_REPO="$WT" timeout 1500 ./check $p --tier ${TIER:-quick} 2>&1); r=$?
  echo "== $p exit=$r $(echo "$out" | grep -E "^$p tier" | cut -c1-120)"
  echo "$out" | grep -E "^(VIOLATION|--- failure)" | head -6
done
