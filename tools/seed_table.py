#!/usr/bin/env python3
"""Print the markdown table of seeded changes (seeded/*/meta.json) for DESIGN.md section 8.4."""
import json, os
root = os.path.join(os.path.dirname(os.path.dirname(os.path.abspath(__file__))), 'seeded')
print('| seeded change | breaks | caught by | needs to manifest | history |')
print('|---|---|---|---|---|')
for name in sorted(os.listdir(root)):
    m = json.load(open(os.path.join(root, name, 'meta.json')))
    print('| `%s` | %s | %s | %s | %s |' % (name, m['breaks_property'], ', '.join(m['caught_by']) or ('- (not caught)' if m.get('not_caught') else '- (obsolete)'), m['needs_to_manifest'], m['history']))
