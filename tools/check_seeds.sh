#!/bin/bash
# For every seeded change: apply it to a scratch worktree and run the checks listed in meta.json caught_by (quick tier).
# Prints one line per (seed, check): CAUGHT / MISSED.
cd "$(dirname "$0")/.." || exit 2
[ -d .deps ] || ./setup.sh >/dev/null 2>&1
for d in seeded/*/; do
  name=$(basename "$d")
  [ -n "$1" ] && [[ "$name" != $1* ]] && continue
  ids=$(python3 -c "import json; print(' '.join(json.load(open('$d/meta.json'))['caught_by']))")
  [ -z "$ids" ] && { echo "SKIPPED $name (obsolete or recorded as not caught, see meta.json)"; continue; }
  out=$(./tools/try_seed.sh "$PWD/$d/patch.diff" -- $ids 2>&1)
  suite=$(echo "$out" | grep "== suite" | grep -c "509 passed")
  for p in $ids; do
    r=$(echo "$out" | grep "^== $p exit=" | sed 's/.*exit=\([0-9]*\).*/\1/')
    if [ "$r" = "1" ]; then echo "CAUGHT $name $p (suite_ok=$suite)"; else echo "MISSED $name $p exit=$r (suite_ok=$suite)"; fi
  done
done
