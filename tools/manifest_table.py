# table of claimed checks: add(id, technique, level text, level note, DESIGN.md ref)
add('C01', 'property-based testing: typed random STL grammar x random traces against an independent reference semantics (Hypothesis)',
    'Generated search: thousands of nested formulas and boundary-length traces per run are evaluated offline and compared sample by sample '
    'with a quadratic transcription of the README semantics; shape and time column are checked too. Finds wrong boundaries, swapped min/max, '
    'dropped operators; cannot show absence beyond the explored sizes (depth<=7, n<=24, bounds<=24).',
    'Trusted: vlib/refsem.py (reference semantics) and the conventions listed in the evidence assumptions; floats compared exactly (1e-9 relative when transcendental ops occur).',
    'DESIGN.md section 5 C01')
