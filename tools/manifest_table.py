# table of claimed checks: add(id, technique, level text, level note, DESIGN.md ref)
add('C01', 'property-based testing: typed random STL grammar x random traces against an independent reference semantics (Hypothesis)',
    'Generated search: thousands of nested formulas and boundary-length traces per run are evaluated offline and compared sample by sample '
    'with a quadratic transcription of the README semantics; shape and time column are checked too. Finds wrong boundaries, swapped min/max, '
    'dropped operators; cannot show absence beyond the explored sizes (depth<=7, n<=24, bounds<=24).',
    'Trusted: vlib/refsem.py (reference semantics) and the conventions listed in the evidence assumptions; floats compared exactly (1e-9 relative when transcendental ops occur).',
    'DESIGN.md section 5 C01')
add('C02', 'property-based testing: past-time STL grammar with forced sub-formula reuse, online update() per sample vs reference semantics and vs offline evaluate() (differential, Hypothesis)',
    'Generated search over past-time formulas (deque sizes up to 9, wrap-around many times, duplicate stateful sub-formula text) and traces up to 24 '
    'samples; every update is compared with the reference and with rtamt offline. Catches buffer length / pre-fill / index errors and shared or '
    'double-stepped operator state; bounded by depth<=6, bounds<=8.',
    'Trusted: vlib/refsem.py; an offline/reference disagreement is attributed to C01 and skipped here (counted as discarded).',
    'DESIGN.md section 5 C02')
add('C13', 'property-based testing + exhaustive enumeration: generated time-stamp sequences/unit configurations against an exact Fraction model of the tolerance test',
    'Random sequences of up to 20 gaps on a dyadic lattice around the tolerance boundaries, all dyadic period/unit combinations, 7 tolerances, '
    'online and offline, plus a complete enumeration of all sequences of <=3 (thorough 4) gaps over a boundary-heavy set. Counter compared with an exact rational count.',
    'Trusted: the reading "time stamps are in the default unit" (README); gaps are dyadic so the float comparison in rtamt is exact.',
    'DESIGN.md section 5 C13')
add('C16', 'property-based testing: metamorphic relation between offline evaluation of a trace and of its extension (Hypothesis)',
    'Generated formulas without unbounded future x traces x cut points; settled positions (t+h inside the prefix) must be identical in both runs. '
    'Catches padding that leaks into settled positions and operators reading beyond their window.',
    'Trusted: the harness horizon function (sum of upper bounds, next = 1).',
    'DESIGN.md section 5 C16')
add('C18', 'property-based testing: metamorphic law schemata (dualities, implication, nested-window, since/until expansion) evaluated by the same monitor (Hypothesis)',
    'Both sides of each law are evaluated by the same monitor on generated operands/bounds/traces and must be exactly equal; needs no reference model, '
    'so complementary errors in dual operators and errors that only appear under negation are visible.',
    'Trusted: only the law statements; exact float equality (min/max/negation identities).',
    'DESIGN.md section 5 C18')
add('C07', 'property-based testing: monitor output sign vs an independent Boolean STL evaluator, and verdict invariance under generated perturbations smaller than |rho| (Hypothesis)',
    'Sign soundness is checked at every sample of generated iff/xor-free formulas; the Lipschitz part perturbs every sample by up to 0.98|rho| '
    'and re-evaluates the Boolean verdict. Catches sign-convention errors under not/implies and swapped predicate operands.',
    'Trusted: vlib/refsem.py bool_dt (three-valued Boolean evaluator written independently of the robustness reference).',
    'DESIGN.md section 5 C07')
add('C04', 'property-based testing: dense-time grammar x piecewise-constant grid signals with unaligned break-points against an exact grid reference semantics (Hypothesis)',
    'Signals and bounds live on a dyadic grid, where the dense semantics reduces exactly to window arithmetic on cells; the returned sample list is read as a '
    'step function and compared at every cell start, midpoint and output time stamp, plus shape/start/monotone time stamps. Explores the Allen-case merge, '
    'sliding windows and since/until recursion under nesting; bounded by depth<=4, <=8 samples per variable, bounds<=24 cells.',
    'Trusted: vlib/refsem.py ct_cells; non-strict since/until as the suite pins; signals start together; t0>0 only with unbounded operators (see DESIGN.md Corrections).',
    'DESIGN.md section 5 C04')
add('C17', 'property-based testing: validity predicate over outcomes (normal return / exception type) for generated supported and unsupported specifications per monitor kind (Hypothesis)',
    'Supported formulas with degenerate but well-formed data (1-sample, surplus/unused variables, permuted inputs) must return normally on all five monitor set-ups; '
    'an unsupported construct inserted at a random depth must end in RTAMTException at parse/pastify/first evaluation.',
    'Trusted: the per-kind table of supported operators (from the property text); math-domain faults excluded by construction.',
    'DESIGN.md section 5 C17')
add('C03', 'property-based testing: pastified online monitor vs reference semantics on every prefix, with forced siblings of different horizon (Hypothesis)',
    'For generated bounded-future formulas every update i >= h of the pastified monitor is compared with R-dt(phi, w[0..i])[i-h]; pure-past specifications must be unchanged '
    'by pastify(); unbounded future must make pastify() raise RTAMTException. Lanes for siblings of different horizon, past operators over future operands (warm-up), pure-past specifications and unit spellings.',
    'Trusted: vlib/refsem.py and the harness horizon function; outputs for i < h are unconstrained. One open finding (KNOWN_FINDINGS.txt): a partial function applied to an operand that pastify() delays raises during the warm-up; reported as KNOWN-FINDING under a key that only matches an exception of the log / ln / sqrt operation at an update before the horizon.',
    'DESIGN.md section 5 C03')
add('C14', 'property-based testing / grammar-based fuzzing: generated, mutated and random-token specification texts against an independent tokenizer + recogniser and an exception-type oracle (Hypothesis)',
    'Tens of thousands of texts per run (derivable files with aliases/declarations/constants, token-level mutations incl. illegal characters, trailing garbage, '
    'bad intervals, odd literals, undeclared names; token soup). parse() must return or raise RTAMTException; on success the independent recogniser must accept the text, '
    'no character may have been skipped, intervals must be well formed, bound constants declared, and the first evaluate() must return or raise RTAMTException.',
    'Trusted: vlib/lang.py (tokenizer transcribed from LtlLexer.g4, all-paths recogniser for the context-free language of the parser grammars); termination observed under a 20 s alarm.',
    'DESIGN.md section 5 C14')
add('C15', 'property-based testing: metamorphic relation between a canonical and a generated variant spelling of the same formula (aliases, separators, minimal/extra parentheses from an independent precedence table), plus LTL-vs-STL front end (Hypothesis)',
    'Each generated formula is printed canonically and as a variant driven by a choice tape; both are evaluated on the same trace and must agree exactly, a variant '
    'that raises is a difference. Covers all aliases, ":" separators, dropped ";"/head, precedence/associativity of every binary and prefix operator, unless sugar and the LTL front end.',
    'Trusted: vlib/spell.py precedence table (transcribed from the order of the grammar alternatives) and vlib/lang.py recogniser used to validate the printed variant.',
    'DESIGN.md section 5 C15')
add('C11', 'property-based testing: validity predicates over generated call histories (argument deep-compare, repeat, interleaved objects) and a differential run under several PYTHONHASHSEED values (Hypothesis)',
    'Every argument of evaluate()/update() is deep-copied and compared after the call on all four monitor kinds (padding path forced); an offline object is re-evaluated '
    'A,B,A; two or three objects of mixed kinds are interleaved under a generated schedule and compared with solo runs; a generated batch is re-run in sub-processes '
    'with four hash seeds and compared byte-wise.',
    'Trusted: Python structural equality; hash-seed independence is sampled (4 seeds, one batch per run).',
    'DESIGN.md section 5 C11')
add('C08', 'property-based testing: metamorphic relation between generated unit spellings of the same durations (bound suffixes, default unit, period unit), reference with bounds in periods, and an exception oracle for off-grid bounds (Hypothesis)',
    'Two independently drawn spellings (per-bound unit, bare default unit, period written in another unit, other default unit) are evaluated offline, online and after pastify() '
    'and must agree with each other and with R-dt computed with bound/period; a bound moved off the sampling grid must raise RTAMTException; dense-time results must be '
    'invariant under explicit-unit spellings and a restatement of the whole case in another default unit.',
    'Trusted: the unit table s/ms/us/ns = 1e9/1e6/1e3/1 ns, the reading that time stamps are in the default unit; next/s_next excluded from the units lanes.',
    'DESIGN.md section 5 C08')
add('C09', 'property-based testing: differential check of a generated decomposition into sub-specifications/constants against the inlined specification on the same monitor (Hypothesis)',
    'Generated formulas with forced sub-formula reuse are decomposed (nested, repeated references, constants, add_sub_spec or several assertions, declared or undeclared names) and '
    'run on five monitor set-ups; outputs must equal those of the inlined text.',
    'Trusted: only the textual substitution done by the harness (vlib/modular.py); dense results compared as step functions.',
    'DESIGN.md section 5 C09')
add('C12', 'property-based testing: get_value() of every name after every call against stand-alone specifications of the named sub-formulas and the supplied data (Hypothesis)',
    'For the decompositions of C09 every sub-specification name, the output name and every input variable is read back after evaluate()/each update() on five monitor set-ups '
    'and compared with a stand-alone monitor of that sub-formula (pastified if the host was) or with the data supplied.',
    'Trusted: the stand-alone run of the same rtamt monitor kind (whose values are C01-C05 business); dense input batches are checked for shape only.',
    'DESIGN.md section 5 C12')
add('C10', 'property-based testing over generated call histories (update/reset sequences as one shrinkable value) with a freshly constructed shadow monitor as the model (Hypothesis)',
    'Histories of up to 30 update/reset operations on discrete, pastified and dense online monitors with and without sub-specifications; after every update the output '
    'must equal that of a monitor constructed fresh at the last reset, and the sampling-violation counter must agree after every operation; reset() first is included.',
    'Trusted: a freshly constructed monitor as the reference; dense input restarts at time 0 after a reset.',
    'DESIGN.md section 5 C10')
add('C06', 'property-based testing: generated (formula, data, semantics, io assignment, monitor kind) against the reference semantics with the interface-aware predicate rule; STANDARD vs io-declaration metamorphic check (Hypothesis)',
    'All five semantics x random input/output assignments (inputs-only, outputs-only, mixed and variable-free predicates) on the four monitor kinds, compared with R-dt / R-ct '
    'in which insensitive predicates contribute +-inf by satisfaction (0 under vacuity); under STANDARD the result must not depend on the declarations.',
    'Trusted: vlib/refsem.py with the ia rule transcribed from the property text; undeclared io = output.',
    'DESIGN.md section 5 C06')
add('C20', 'property-based testing: sufficiency oracle - generated re-assignments of all non-reported (variable, sample) positions must keep the reference robustness at time 0 negative (Hypothesis)',
    'Generated formulas of the explainer fragment on violating traces; explain() output is read per input variable, 10 generated re-assignments (extreme and small values) of everything '
    'outside the reported positions are evaluated by the reference semantics and must still violate; satisfied specifications must report nothing.',
    'Trusted: vlib/refsem.py; violation = robustness < 0 (the criterion explain() uses), a re-assigned trace with robustness exactly 0 only counts if the Boolean reference also says satisfied.',
    'DESIGN.md section 5 C20')
add('C19', 'property-based testing: differential check between the dense-time and the discrete-time interpretation on generated grid-aligned step signals (Hypothesis)',
    'The same formula (C19 fragment) and the same step signal are given to both monitors for sampling periods 1, 0.5 and 2 s; the dense result read at k*P must equal the discrete '
    'result at sample k wherever the future windows end inside the trace; the dense input is also given in its sparse form.',
    'Trusted: the harness horizon function; both sides are rtamt monitors (C01 and C04 tie each to the reference).',
    'DESIGN.md section 5 C19')
add('C05', 'property-based testing over generated update schedules (common, per-sample, per-variable independent cuts; exhaustive 2^(n-1) schedules for small one-variable signals) against the grid reference and against the single-update run (Hypothesis + enumeration)',
    'Concatenated outputs must be well-formed with non-decreasing time stamps, equal R-ct wherever they cover (shifted by the horizon after pastify) and agree between schedules. '
    'Lanes: unbounded, bounded and pastified operators under arbitrary schedules and in one update; exhaustive schedules for a fixed family of formulas on small one-variable signals; skewed, refilled and edited caller lists; start instants t0 > 0; operands that start at different instants; integer time stamps beyond 2^53.',
    'Trusted: vlib/refsem.py ct_cells; the output covers the span between its first and last time stamp; signals start together (at 0, or at t0 > 0 in the shifted lanes; the lane staggered lets them start at different instants under formulas without temporal operators). One open finding (KNOWN_FINDINGS.txt): with t0 > 0 a past operator above a bounded past operator reads its operand from t0 + a on; filed under the known key only if the same case moved to start at 0 passes.',
    'DESIGN.md section 5 C05')
