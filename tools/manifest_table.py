# table of claimed checks: add(id, technique, level text, level note, DESIGN.md ref)
add('C01', 'property-based testing: typed random STL grammar x random traces against an independent reference semantics (Hypothesis)',
    'Generated search: thousands of nested formulas and boundary-length traces per run are evaluated offline and compared sample by sample '
    'with a quadratic transcription of the README semantics; shape and time column are checked too. Finds wrong boundaries, swapped min/max, '
    'dropped operators; cannot show absence beyond the explored sizes (depth<=7, n<=24, bounds<=24).',
    'Trusted: vlib/refsem.py (reference semantics) and the conventions listed in the evidence assumptions; floats compared exactly (1e-9 relative when transcendental ops occur).',
    'DESIGN.md section 5 C01')
add('C02', 'property-based testing: past-time STL grammar with forced sub-formula reuse, online update() per sample vs reference semantics and vs offline evaluate() (differential, Hypothesis)',
    'Generated search over past-time formulas (deque sizes up to 9, wrap-around many times, duplicate stateful sub-formula text) and traces up to 24 '
    'samples; every update is compared with the reference and with rtamt offline. Catches buffer length / pre-fill / index errors and shared or '
    'double-stepped operator state; bounded by depth<=6, bounds<=8.',
    'Trusted: vlib/refsem.py; an offline/reference disagreement is attributed to C01 and skipped here (counted as discarded).',
    'DESIGN.md section 5 C02')
add('C13', 'property-based testing + exhaustive enumeration: generated time-stamp sequences/unit configurations against an exact Fraction model of the tolerance test',
    'Random sequences of up to 20 gaps on a dyadic lattice around the tolerance boundaries, all dyadic period/unit combinations, 7 tolerances, '
    'online and offline, plus a complete enumeration of all sequences of <=3 (thorough 4) gaps over a boundary-heavy set. Counter compared with an exact rational count.',
    'Trusted: the reading "time stamps are in the default unit" (README); gaps are dyadic so the float comparison in rtamt is exact.',
    'DESIGN.md section 5 C13')
