#!/usr/bin/env python3
"""Print the markdown table of lanes per property (DESIGN.md section 8.5) from vlib/props/*.LANES."""
import importlib, os, sys
root = os.path.dirname(os.path.dirname(os.path.abspath(__file__)))
sys.path[:0] = [os.environ.get('VERIF_REPO', '/repo'), root, os.path.join(root, '.deps')]
from vlib import runner
print('| property | lanes (quick budget / thorough lane budget before the x%g scale; E = enumerated or external campaign) |' % 2.0)
print('|---|---|')
for i in range(1, 21):
    p = 'C%02d' % i
    mod = importlib.import_module('vlib.props.' + p)
    qs = getattr(mod, 'QUICK_SCALE', 3.0)
    cells = []
    for l in mod.LANES:
        if l.custom is not None:
            cells.append('%s (E%s)' % (l.name, ', thorough only' if l.name == 'atheris' else ''))
        else:
            cells.append('%s (%d/%d)' % (l.name, int(l.quick * qs), l.thorough))
    print('| %s | %s |' % (p, ', '.join(cells)))
