#!/bin/bash
# Offline set-up: make hypothesis / jsonschema / atheris importable for /venv/bin/python.
cd "$(dirname "$0")" || exit 2
export PIP_NO_INDEX=1
W=/opt/veriftools/wheels
mkdir -p .deps
need=""
/venv/bin/python -c "import hypothesis" 2>/dev/null || need="$need hypothesis"
PYTHONPATH=.deps /venv/bin/python -c "import jsonschema" 2>/dev/null || need="$need jsonschema"
PYTHONPATH=.deps /venv/bin/python -c "import atheris" 2>/dev/null || need="$need atheris"
if [ -n "$need" ]; then
  /venv/bin/pip install --quiet --no-index --find-links "$W" --target .deps $need || echo "setup: could not install:$need (checks fall back to built-in validation)"
fi
PYTHONPATH=/repo:.deps /venv/bin/python -c "import hypothesis, rtamt; print('setup ok: hypothesis', hypothesis.__version__, 'rtamt', rtamt.__file__)"
