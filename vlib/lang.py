"""Independent model of the specification language: a maximal-munch tokenizer
transcribed from LtlLexer.g4 and a recogniser for the context-free language of
StlParser.g4 / LtlParser.g4 (membership only; precedence does not change
membership).  Used by C14 and C15; shares no code with rtamt or ANTLR."""
import re

# literal tokens in the order of the lexer grammar (first rule wins ties of equal length)
LITERALS = [
    ('MINUS', '-'), ('PLUS', '+'), ('TIMES', '*'), ('DIVIDE', '/'), ('LPAREN', '('), ('RPAREN', ')'),
    ('LBRACE', '{'), ('RBRACE', '}'), ('LBRACK', '['), ('RBRACK', ']'), ('SEMICOLON', ';'), ('COLON', ':'),
    ('COMMA', ','), ('DOT', '.'), ('AT', '@'),
    ('ABS', 'abs'), ('SQRT', 'sqrt'), ('EXP', 'exp'), ('POW', 'pow'), ('LOG', 'log'), ('LN', 'ln'),
    ('SEC', 's'), ('MSEC', 'ms'), ('USEC', 'us'), ('NSEC', 'ns'), ('PSEC', 'ps'),
    ('ROS_Topic', 'topic'), ('Import', 'import'), ('Input', 'input'), ('Output', 'output'), ('Internal', 'internal'),
    ('Constant', 'const'), ('DomainTypeReal', 'real'), ('DomainTypeFloat', 'float'), ('DomainTypeLong', 'long'),
    ('DomainTypeComplex', 'complex'), ('DomainTypeInt', 'int'), ('DomainTypeBool', 'bool'),
    ('Assertion', 'assertion'), ('Specification', 'specification'), ('From', 'from'),
    ('NotOperator', 'not'), ('NotOperator', '!'), ('OrOperator', 'or'), ('OrOperator', '|'),
    ('AndOperator', 'and'), ('AndOperator', '&'), ('IffOperator', 'iff'), ('IffOperator', '<->'),
    ('ImpliesOperator', 'implies'), ('ImpliesOperator', '->'), ('XorOperator', 'xor'),
    ('RiseOperator', 'rise'), ('FallOperator', 'fall'),
    ('AlwaysOperator', 'always'), ('AlwaysOperator', 'G'), ('EventuallyOperator', 'eventually'), ('EventuallyOperator', 'F'),
    ('UntilOperator', 'until'), ('UntilOperator', 'U'), ('UnlessOperator', 'unless'), ('UnlessOperator', 'W'),
    ('HistoricallyOperator', 'historically'), ('HistoricallyOperator', 'H'), ('OnceOperator', 'once'), ('OnceOperator', 'O'),
    ('SinceOperator', 'since'), ('SinceOperator', 'S'), ('NextOperator', 'next'), ('NextOperator', 'X'),
    ('PreviousOperator', 'prev'), ('PreviousOperator', 'Y'), ('StrongNextOperator', 's_next'), ('StrongNextOperator', 'sX'),
    ('StrongPreviousOperator', 's_prev'), ('StrongPreviousOperator', 'sY'),
    ('EqualOperator', '=='), ('NotEqualOperator', '!=='), ('GreaterOrEqualOperator', '>='), ('LesserOrEqualOperator', '<='),
    ('GreaterOperator', '>'), ('LesserOperator', '<'), ('EQUAL', '='),
    ('BooleanLiteral', 'true'), ('BooleanLiteral', 'TRUE'), ('BooleanLiteral', 'false'), ('BooleanLiteral', 'FALSE'),
]

_DIGITS = r'[0-9](?:[0-9_]*[0-9])?'
_HEXD = r'[0-9a-fA-F](?:[0-9a-fA-F_]*[0-9a-fA-F])?'
_BIND = r'[01](?:[01_]*[01])?'
_EXPO = r'[eE][+-]?[0-9]+'
RE_INT = re.compile(r'(?:0[xX]%s|0[bB]%s|0|[1-9](?:(?:%s)?|_+%s))' % (_HEXD, _BIND, _DIGITS, _DIGITS))
RE_REAL = re.compile(r'(?:%s\.(?:%s)?(?:%s)?|\.%s(?:%s)?|%s%s)' % (_DIGITS, _DIGITS, _EXPO, _DIGITS, _EXPO, _DIGITS, _EXPO))
RE_ID = re.compile(r'[A-Za-z_$][A-Za-z_$0-9./]*')
RE_WS = re.compile(r'[ \t\r\x0c]+')
RE_COMMENT = re.compile(r'/\*.*?\*/', re.S)
RE_LINE_COMMENT = re.compile(r'//[^\r\n]*')


def _longest(regex, text, i):
    """Longest match of an alternation-style regex at i (python alternation is ordered, not longest)."""
    m = regex.match(text, i)
    return m.end() - i if m else 0


def _int_len(text, i):
    # try every alternative and keep the longest
    best = 0
    for pat in (r'0[xX]' + _HEXD, r'0[bB]' + _BIND, r'0', r'[1-9](?:%s)?' % _DIGITS, r'[1-9]_+' + _DIGITS):
        m = re.compile(pat).match(text, i)
        if m:
            best = max(best, m.end() - i)
    return best


def _real_len(text, i):
    best = 0
    for pat in (r'%s\.(?:%s)?(?:%s)?' % (_DIGITS, _DIGITS, _EXPO), r'\.%s(?:%s)?' % (_DIGITS, _EXPO), r'%s%s' % (_DIGITS, _EXPO)):
        m = re.compile(pat).match(text, i)
        if m:
            best = max(best, m.end() - i)
    return best


_LIT_BY_FIRST = {}
for _idx, (_name, _s) in enumerate(LITERALS):
    _LIT_BY_FIRST.setdefault(_s[0], []).append((_idx, _name, _s))


def tokenize(text):
    """Returns (tokens, illegal) where tokens is a list of (type, text) and illegal the list of
    (position, char) the lexer cannot match (ANTLR reports them and skips one character)."""
    toks = []
    illegal = []
    i = 0
    n = len(text)
    while i < n:
        ch = text[i]
        # candidates: (length, rule order, type); skip rules come last in the grammar
        best = None

        def offer(length, order, typ):
            nonlocal best
            if length > 0 and (best is None or length > best[0] or (length == best[0] and order < best[1])):
                best = (length, order, typ)
        for idx, name, s in _LIT_BY_FIRST.get(ch, ()):
            if text.startswith(s, i):
                offer(len(s), idx, name)
        base = len(LITERALS)
        if ch.isdigit() or ch == '.':
            offer(_int_len(text, i) if ch.isdigit() else 0, base + 1, 'IntegerLiteral')
            offer(_real_len(text, i), base + 2, 'RealLiteral')
        m = RE_ID.match(text, i)
        if m:
            offer(m.end() - i, base + 3, 'Identifier')
        if ch == '\n':
            offer(1, base + 4, 'SKIP')
        m = RE_WS.match(text, i)
        if m:
            offer(m.end() - i, base + 5, 'SKIP')
        if ch == '/':
            m = RE_COMMENT.match(text, i)
            if m:
                offer(m.end() - i, base + 6, 'SKIP')
            m = RE_LINE_COMMENT.match(text, i)
            if m:
                offer(m.end() - i, base + 7, 'SKIP')
        if best is None:
            illegal.append((i, ch))
            i += 1
            continue
        length, _o, typ = best
        if typ != 'SKIP':
            toks.append((typ, text[i:i + length]))
        i += length
    return toks, illegal


# --------------------------------------------------------------------------
# recogniser
# --------------------------------------------------------------------------

PREFIX_PLAIN = {'MINUS', 'NotOperator', 'PreviousOperator', 'NextOperator', 'StrongPreviousOperator', 'StrongNextOperator'}
PREFIX_INTERVAL = {'AlwaysOperator', 'EventuallyOperator', 'HistoricallyOperator', 'OnceOperator'}
INFIX_PLAIN = {'TIMES', 'DIVIDE', 'PLUS', 'MINUS', 'LesserOrEqualOperator', 'GreaterOrEqualOperator', 'LesserOperator',
               'GreaterOperator', 'EqualOperator', 'NotEqualOperator', 'AndOperator', 'OrOperator', 'ImpliesOperator',
               'IffOperator', 'XorOperator'}
INFIX_INTERVAL = {'UntilOperator', 'UnlessOperator', 'SinceOperator'}
FUNC1 = {'ABS', 'SQRT', 'EXP', 'LN', 'RiseOperator', 'FallOperator'}
FUNC2 = {'POW', 'LOG'}
UNITS = {'SEC', 'MSEC', 'USEC', 'NSEC'}
LITERAL = {'IntegerLiteral', 'RealLiteral'}
DOMAIN = {'DomainTypeFloat', 'DomainTypeInt', 'DomainTypeLong', 'DomainTypeComplex', 'Identifier'}


class Recogniser(object):
    """All-paths recogniser (sets of end positions, memoised) for specification_file."""

    def __init__(self, toks, stl=True):
        self.t = [k for k, _ in toks]
        self.n = len(self.t)
        self.stl = stl
        self.memo = {}

    def tok(self, i):
        return self.t[i] if i < self.n else 'EOF'

    def interval(self, i):
        """end positions of an interval starting at i (empty set if none)."""
        if not self.stl or self.tok(i) != 'LBRACK':
            return set()
        out = set()
        for j in self.itime(i + 1):
            if self.tok(j) in ('COLON', 'COMMA'):
                for k in self.itime(j + 1):
                    if self.tok(k) == 'RBRACK':
                        out.add(k + 1)
        return out

    def itime(self, i):
        out = set()
        if self.tok(i) in LITERAL or self.tok(i) == 'Identifier':
            out.add(i + 1)
            if self.tok(i + 1) in UNITS:
                out.add(i + 2)
        return out

    def expr(self, i):
        key = ('e', i)
        if key in self.memo:
            return self.memo[key]
        self.memo[key] = set()   # guard
        ends = set()
        frontier = set(self.unit(i))
        while frontier:
            new = set()
            for j in frontier:
                if j in ends:
                    continue
                ends.add(j)
                t = self.tok(j)
                if t in INFIX_PLAIN:
                    new |= set(self.unit(j + 1))
                elif t in INFIX_INTERVAL:
                    new |= set(self.unit(j + 1))
                    for k in self.interval(j + 1):
                        new |= set(self.unit(k))
            frontier = new - ends
        self.memo[key] = ends
        return ends

    def unit(self, i):
        key = ('u', i)
        if key in self.memo:
            return self.memo[key]
        self.memo[key] = set()
        t = self.tok(i)
        out = set()
        if t in PREFIX_PLAIN:
            out |= self.unit(i + 1)
        elif t in PREFIX_INTERVAL:
            out |= self.unit(i + 1)
            for k in self.interval(i + 1):
                out |= self.unit(k)
        elif t == 'LPAREN':
            for j in self.expr(i + 1):
                if self.tok(j) == 'RPAREN':
                    out.add(j + 1)
        elif t in FUNC1:
            if self.tok(i + 1) == 'LPAREN':
                for j in self.expr(i + 2):
                    if self.tok(j) == 'RPAREN':
                        out.add(j + 1)
        elif t in FUNC2:
            if self.tok(i + 1) == 'LPAREN':
                for j in self.expr(i + 2):
                    if self.tok(j) == 'COMMA':
                        for k in self.expr(j + 1):
                            if self.tok(k) == 'RPAREN':
                                out.add(k + 1)
        elif t == 'Identifier' or t in LITERAL:
            out.add(i + 1)
        self.memo[key] = out
        return out

    def assertion(self, i):
        out = set()
        starts = [i]
        if self.tok(i) == 'Identifier' and self.tok(i + 1) == 'EQUAL':
            starts.append(i + 2)
        for s in starts:
            for j in self.expr(s):
                if self.tok(j) == 'SEMICOLON':
                    out.add(j + 1)
        return out

    def declaration(self, i):
        out = set()
        if self.tok(i) == 'Constant':
            if self.tok(i + 1) in DOMAIN and self.tok(i + 2) == 'Identifier' and self.tok(i + 3) == 'EQUAL' and self.tok(i + 4) in LITERAL:
                out.add(i + 5)
            return out
        j = i
        if self.tok(j) in ('Input', 'Output'):
            j += 1
        if self.tok(j) in DOMAIN and self.tok(j + 1) == 'Identifier':
            out.add(j + 2)
            if self.tok(j + 2) == 'EQUAL':
                if self.tok(j + 3) in LITERAL:
                    out.add(j + 4)
                out |= self.expr(j + 3)
        if self.tok(i) == 'AT' and self.tok(i + 1) == 'ROS_Topic' and self.tok(i + 2) == 'LPAREN' and \
                self.tok(i + 3) == 'Identifier' and self.tok(i + 4) == 'COMMA' and self.tok(i + 5) == 'Identifier' and \
                self.tok(i + 6) == 'RPAREN':
            out.add(i + 7)
        return out

    def accepts(self):
        pos = {0}
        if self.tok(0) == 'Specification' and self.tok(1) == 'Identifier':
            pos = {2}
        # modimport*
        changed = True
        while changed:
            changed = False
            for p in list(pos):
                if self.tok(p) == 'From' and self.tok(p + 1) == 'Identifier' and self.tok(p + 2) == 'Import' and \
                        self.tok(p + 3) == 'Identifier' and p + 4 not in pos:
                    pos.add(p + 4)
                    changed = True
        # (declaration | annotation)*
        seen = set(pos)
        frontier = set(pos)
        while frontier:
            new = set()
            for p in frontier:
                new |= self.declaration(p)
            frontier = new - seen
            seen |= new
        # assertion+
        reach = set()
        frontier = set()
        for p in seen:
            frontier |= self.assertion(p)
        while frontier:
            reach |= frontier
            new = set()
            for p in frontier:
                new |= self.assertion(p)
            frontier = new - reach
        return self.n in reach


def accepts(text, stl=True):
    """(accepted, tokens, illegal characters); the final ';' of a text is optional: one is added unless the last TOKEN of the
    text is a ';' (white space and comments after it do not count - the lexer skips them)."""
    toks, illegal = tokenize(text)
    if not toks or toks[-1][1] != ';':
        toks, illegal = tokenize(text + '\n;')
    return Recogniser(toks, stl).accepts(), toks, illegal


def intervals(toks):
    """Token-level view of every interval: list of ((kind, text, unit), (kind, text, unit))."""
    out = []
    i = 0
    while i < len(toks):
        if toks[i][0] == 'LBRACK':
            j = i + 1
            parts = []
            cur = []
            while j < len(toks) and toks[j][0] != 'RBRACK':
                if toks[j][0] in ('COLON', 'COMMA'):
                    parts.append(cur)
                    cur = []
                else:
                    cur.append(toks[j])
                j += 1
            parts.append(cur)
            out.append(parts)
            i = j
        i += 1
    return out
