"""Runner: seeding, sharding over 16 processes, failure bucketing, bounded
shrinking, replay, known-finding matching and evidence files.

A property module (vlib/props/Cxx.py) provides

  PROPERTY   = 'C01'
  RULE       = '...how cases are generated, what makes one non-trivial / distinct...'
  ASSUMPTIONS = [...]
  LANES      = [Lane(...), ...]

A lane's check function takes a JSON-able case (dict) and returns a Verdict.
"""
import argparse
import glob
import hashlib
import importlib
import json
import multiprocessing
import os
import sys
import time
import traceback
from collections import Counter

ROOT = os.path.dirname(os.path.dirname(os.path.abspath(__file__)))
MAX_BUCKETS = 6
SAMPLE_AT = (3, 10, 25, 50, 100, 200)   # which non-trivial cases of shard 0 are written out as samples


class Verdict(object):
    __slots__ = ('status', 'nontrivial', 'labels', 'key', 'detail', 'reason')

    def __init__(self, status, nontrivial=False, labels=(), key=None, detail=None, reason=None):
        self.status = status          # 'pass' | 'fail' | 'discard'
        self.nontrivial = nontrivial
        self.labels = labels
        self.key = key
        self.detail = detail
        self.reason = reason


def PASS(nontrivial=False, labels=()):
    return Verdict('pass', nontrivial, labels)


def FAIL(key, detail, labels=(), nontrivial=True):
    return Verdict('fail', nontrivial, labels, key=key, detail=detail)


def DISCARD(reason, labels=()):
    return Verdict('discard', False, labels, reason=reason)


class Lane(object):
    def __init__(self, name, strategy, check, quick, thorough, candidates=None, custom=None, shards=None):
        """strategy: callable(tier) -> hypothesis strategy of JSON-able cases.
        check: callable(case) -> Verdict.   quick/thorough: case budgets.
        candidates: callable(case) -> iterable of smaller cases (for shrinking).
        custom: callable(tier, seed, shard, nshards) -> (stats dict, failures list) for non-hypothesis
        lanes (exhaustive enumerations); `shards` processes each take their part of the space."""
        self.name = name
        self.strategy = strategy
        self.check = check
        self.quick = quick
        self.thorough = thorough
        self.candidates = candidates
        self.custom = custom
        self.shards = shards


def jsonable(o):
    from .formula import to_jsonable
    return to_jsonable(o)


def digest(case):
    s = json.dumps(jsonable(case), sort_keys=True, separators=(',', ':'))
    return int.from_bytes(hashlib.blake2b(s.encode(), digest_size=8).digest(), 'big')


def derive_seed(*parts):
    s = '/'.join(str(p) for p in parts)
    return int.from_bytes(hashlib.blake2b(s.encode(), digest_size=4).digest(), 'big')


class Stats(object):
    def __init__(self):
        self.evaluations = 0
        self.nontrivial = 0
        self.digests = set()
        self.labels = Counter()
        self.discards = Counter()
        self.known_hits = Counter()
        self.samples = []

    def add(self, case, v, keep_samples):
        self.evaluations += 1
        for l in v.labels:
            self.labels[l] += 1
        if v.status == 'discard':
            self.discards[v.reason] += 1
            return
        if v.nontrivial:
            self.nontrivial += 1
            self.digests.add(digest(case))
            if keep_samples and self.nontrivial in SAMPLE_AT:
                smp = jsonable(case)
                if isinstance(case, dict) and 'formula' in case:
                    try:
                        from .formula import show, from_json
                        smp = dict(smp)
                        smp['formula_text'] = show(from_json(case['formula']))
                    except Exception:
                        pass
                self.samples.append(smp)

    def export(self):
        return {'evaluations': self.evaluations, 'nontrivial': self.nontrivial,
                'digests': self.digests, 'labels': dict(self.labels), 'discards': dict(self.discards),
                'known_hits': dict(self.known_hits), 'samples': self.samples}


class _Fail(Exception):
    pass


def shrink(case, check, key, candidates, max_evals=400, max_seconds=60):
    """Greedy bounded shrinking: adopt any smaller candidate failing with the same key."""
    evals = 0
    cur = case
    curv = None
    improved = True
    t_end = time.time() + max_seconds
    if key.startswith('hang:') or key.startswith('memory:') or 'MemoryError' in key:
        return cur, curv, evals
    while improved and evals < max_evals and time.time() < t_end:
        improved = False
        try:
            cands = list(candidates(cur))
        except Exception:
            break
        for c in cands:
            if evals >= max_evals or time.time() >= t_end:
                break
            evals += 1
            try:
                v = check(c)
            except Exception:
                continue
            if v.status == 'fail' and v.key == key:
                cur, curv = c, v
                improved = True
                break
            if v.status == 'fail' and v.key and (v.key.startswith('hang:') or v.key.startswith('memory:')):
                return cur, curv, evals       # candidates of this case cost the full time limit: stop shrinking
    return cur, curv, evals


def run_shard(args):
    """Worker: one hypothesis run (several rounds if failures are found)."""
    modname, lane_name, tier, seed, shard, n_examples, known_keys = args
    try:
        # the code under test may print (debug prints, ANTLR console listener): keep the check's stdout clean
        if multiprocessing.current_process().name != 'MainProcess':
            sys.stdout = open(os.devnull, 'w')
        return _run_shard(modname, lane_name, tier, seed, shard, n_examples, known_keys)
    except BaseException as e:  # harness error
        return {'lane': lane_name, 'shard': shard, 'error': ''.join(traceback.format_exception(type(e), e, e.__traceback__))}


# seconds of CPU time of the worker process (ITIMER_PROF: independent of the load of the machine); normal cases take
# milliseconds, the slowest legitimate ones a few seconds
CASE_TIME_LIMIT = int(os.environ.get('VLIB_CASE_LIMIT', '40'))
CASE_WALL_LIMIT = 900         # seconds of wall-clock time: beyond it a case is inconclusive (discarded), not a failure
# bytes of address space per worker process: 16 workers must fit into the machine together (a broken tree that allocates
# up to the limit in every worker otherwise stalls the whole run without using CPU time)
WORKER_MEMORY_LIMIT = 2 << 30
CUSTOM_LANE_MEMORY_LIMIT = 4 << 30


class CaseTimeout(BaseException):
    pass


class WallTimeout(BaseException):
    pass


def _on_alarm(signum, frame):
    raise CaseTimeout()


def _on_wall(signum, frame):
    raise WallTimeout()


def guarded(check):
    """Wrap a lane check: a case that runs longer than CASE_TIME_LIMIT or exhausts the memory limit is a failure
    of the code under test (reported with its own bucket), not a reason for the harness to hang."""
    import signal

    def run(case):
        old = signal.signal(signal.SIGPROF, _on_alarm)
        old_alrm = signal.signal(signal.SIGALRM, _on_wall)
        signal.setitimer(signal.ITIMER_PROF, CASE_TIME_LIMIT)
        signal.alarm(CASE_WALL_LIMIT)
        try:
            from . import monitors
            del monitors.CLASS_LOG[:]
            v = check(case)
            if v.status == 'fail' and monitors.CLASS_LOG and v.detail:
                v.detail += '\nspecification classes instantiated last: %s' % ', '.join(monitors.CLASS_LOG)
            return v
        except CaseTimeout:
            return FAIL('hang:>%ds' % CASE_TIME_LIMIT, 'the case did not finish within %d s of CPU time:\n%r' % (CASE_TIME_LIMIT, jsonable(case)))
        except WallTimeout:
            return DISCARD('wall-clock-limit')
        except MemoryError:
            return FAIL('memory:>%dGB' % (WORKER_MEMORY_LIMIT >> 30), 'the case exhausted the memory limit:\n%r' % (jsonable(case),))
        finally:
            signal.setitimer(signal.ITIMER_PROF, 0)
            signal.alarm(0)
            signal.signal(signal.SIGPROF, old)
            signal.signal(signal.SIGALRM, old_alrm)
    return run


def _run_shard(modname, lane_name, tier, seed, shard, n_examples, known_keys):
    from hypothesis import given, settings, HealthCheck, Phase
    from hypothesis import seed as hseed
    mod = importlib.import_module(modname)
    lane = [l for l in mod.LANES if l.name == lane_name][0]
    if multiprocessing.current_process().name != 'MainProcess':
        try:
            import resource
            lim = WORKER_MEMORY_LIMIT if lane.custom is None else CUSTOM_LANE_MEMORY_LIMIT
            resource.setrlimit(resource.RLIMIT_AS, (lim, resource.getrlimit(resource.RLIMIT_AS)[1]))
        except Exception:
            pass
    if lane.check is not None:
        lane.check = guarded(lane.check)
    t0 = time.time()
    if lane.custom is not None:
        st_, fails = lane.custom(tier, seed, shard, n_examples)
        return {'lane': lane_name, 'shard': shard, 'stats': st_, 'failures': fails, 'wall': time.time() - t0}
    strategy = lane.strategy(tier)
    stats = Stats()
    seen = set(known_keys)
    failures = []
    stop_dir = os.environ.get('VLIB_STOP_DIR')
    stop_flag = os.path.join(stop_dir, 'stop-' + lane_name) if stop_dir else None
    stop_all = os.path.join(stop_dir, 'stop-ALL') if stop_dir else None
    remaining = n_examples
    rnd = 0
    while remaining > 0 and len(failures) < MAX_BUCKETS:
        state = {'fail': None, 'count': 0}

        @hseed(derive_seed(seed, mod.PROPERTY, lane_name, shard, rnd))
        @settings(max_examples=remaining, database=None, deadline=None, derandomize=False,
                  suppress_health_check=list(HealthCheck), phases=[Phase.generate],
                  report_multiple_bugs=False)
        @given(strategy)
        def test(case):
            if state['fail'] is not None:
                raise _Fail()
            if stop_flag and (os.path.exists(stop_flag) or os.path.exists(stop_all)):
                state['stopped'] = True
                raise _Fail()
            v = lane.check(case)
            if v.status == 'fail' and stop_flag and (v.key.startswith('hang:') or v.key.startswith('memory:')):
                # every further such case costs the full time limit: the other shards of this lane stop too
                try:
                    open(stop_flag, 'w').close()
                    # hangs in three lanes: the tree is broken in a way that makes every further lane cost minutes
                    if len([x for x in os.listdir(stop_dir) if x.startswith('stop-')]) >= 3:
                        open(stop_all, 'w').close()
                except OSError:
                    pass
            state['count'] += 1
            stats.add(case, v, shard == 0)
            if v.status == 'fail':
                if v.key in seen:
                    stats.known_hits[v.key] += 1
                else:
                    state['fail'] = (case, v)
                    raise _Fail()

        try:
            test()
        except _Fail:
            pass
        remaining -= max(1, state['count'])
        rnd += 1
        if state['fail'] is None or state.get('stopped'):
            break
        case, v = state['fail']
        evals = 0
        if lane.candidates is not None:
            c2, v2, evals = shrink(case, lane.check, v.key, lane.candidates,
                                   max_evals=300 if tier == 'quick' else 2000,
                                   max_seconds=20 if tier == 'quick' else 300)
            if v2 is not None:
                case, v = c2, v2
        failures.append({'lane': lane_name, 'key': v.key, 'detail': v.detail, 'case': jsonable(case),
                         'shrink_evals': evals})
        seen.add(v.key)
        if v.key.startswith('hang:') or v.key.startswith('memory:'):
            break     # every further such case would cost the full time limit: stop this shard
    return {'lane': lane_name, 'shard': shard, 'stats': stats.export(), 'failures': failures,
            'wall': time.time() - t0}


# --------------------------------------------------------------------------
# known findings
# --------------------------------------------------------------------------

def load_known(prop):
    """Parse KNOWN_FINDINGS.txt: returns list of dicts for `open:` entries of this property."""
    path = os.path.join(ROOT, 'KNOWN_FINDINGS.txt')
    out = []
    if not os.path.exists(path):
        return out
    for line in open(path):
        line = line.strip()
        if not line.startswith('open:'):
            continue
        rest = line[len('open:'):].strip()
        toks = rest.split()
        d = {'what': []}
        for t in toks:
            if t.startswith('property=') and 'property' not in d:
                d['property'] = t.split('=', 1)[1]
            elif t.startswith('key=') and 'key' not in d:
                d['key'] = t.split('=', 1)[1]
            elif t.startswith('repro=') and 'repro' not in d:
                d['repro'] = t.split('=', 1)[1]
            else:
                d['what'].append(t)
        d['what'] = ' '.join(d['what'])
        if d.get('property') == prop:
            out.append(d)
    return out


# --------------------------------------------------------------------------
# main
# --------------------------------------------------------------------------

def lane_by_name(mod, name):
    for l in mod.LANES:
        if l.name == name:
            return l
    raise KeyError(name)


def replay_file(mod, path):
    with open(path) as fh:
        rec = json.load(fh)
    lane = lane_by_name(mod, rec['lane'])
    from .formula import from_json  # noqa
    import contextlib
    import io
    with contextlib.redirect_stdout(io.StringIO()):      # the code under test may print
        v = guarded(lane.check)(rec['case'])
    return rec, v


def validate_evidence(ev):
    schema_path = '/root/.vp/EVIDENCE.schema.json'
    local = os.path.join(ROOT, 'schemas', 'EVIDENCE.schema.json')
    if not os.path.exists(schema_path):
        schema_path = local
    try:
        import jsonschema
        with open(schema_path) as fh:
            schema = json.load(fh)
        jsonschema.validate(ev, schema)
        return None
    except ImportError:
        cov = ev.get('coverage', {})
        for k in ('evaluations', 'distinct_nontrivial', 'rule', 'samples'):
            if k not in cov:
                return 'missing coverage.%s' % k
        if cov['evaluations'] < 1 or cov['distinct_nontrivial'] < 2 or not cov['samples']:
            return 'coverage counts too small'
        return None
    except Exception as e:
        return str(e)[:500]


def main(argv=None):
    ap = argparse.ArgumentParser()
    ap.add_argument('property')
    ap.add_argument('--tier', default=os.environ.get('VERIF_TIER', 'quick'), choices=['quick', 'thorough'])
    ap.add_argument('--replay')
    ap.add_argument('--workers', type=int, default=int(os.environ.get('VERIF_WORKERS', '16')))
    ap.add_argument('--scale', type=float, default=float(os.environ.get('VERIF_SCALE', '1')))
    ap.add_argument('--lane', action='append')
    a = ap.parse_args(argv)
    try:
        seed = int(os.environ.get('VERIF_SEED', '1'))
    except ValueError:
        seed = 1
    prop = a.property
    try:
        from . import monitors
        monitors.assert_repo()
        mod = importlib.import_module('vlib.props.' + prop)
    except SystemExit:
        raise
    except BaseException:
        traceback.print_exc()
        print('HARNESS-ERROR property=%s import failed' % prop)
        return 2

    if a.replay:
        rec, v = replay_file(mod, a.replay)
        print('replay %s lane=%s status=%s key=%s' % (a.replay, rec['lane'], v.status, v.key))
        if v.detail:
            print(v.detail)
        if v.status == 'fail':
            print('VIOLATION property=%s replay=%s' % (prop, a.replay))
            return 1
        return 0

    t0 = time.time()
    known = load_known(prop)
    known_keys = set(k['key'] for k in known if 'key' in k)
    violations = []       # (key, replay path, detail)
    known_lines = []
    harness_errors = []

    # 1. replay tier: regressions must pass
    reg_count = 0
    for path in sorted(glob.glob(os.path.join(ROOT, 'regressions', prop, '*.json'))):
        try:
            rec, v = replay_file(mod, path)
        except BaseException:
            harness_errors.append('regression %s: %s' % (path, traceback.format_exc()))
            continue
        reg_count += 1
        if v.status == 'fail':
            if v.key in known_keys:
                continue
            violations.append((v.key, os.path.relpath(path, ROOT), v.detail))
    # 2. open findings: reproducers
    for k in known:
        rp = k.get('repro')
        still = None
        if rp and os.path.exists(os.path.join(ROOT, rp)):
            try:
                rec, v = replay_file(mod, os.path.join(ROOT, rp))
                still = (v.status == 'fail')
                if still and v.key != k.get('key'):
                    violations.append((v.key, rp, v.detail))
                    still = None
            except BaseException:
                harness_errors.append('finding %s: %s' % (rp, traceback.format_exc()))
        k['still'] = still
        if still:
            known_lines.append('KNOWN-FINDING: property=%s %s' % (prop, k['what']))

    # 3. generated lanes
    tasks = []
    lanes = [l for l in mod.LANES if not a.lane or l.name in a.lane]
    for lane in lanes:
        budget = lane.quick if a.tier == 'quick' else lane.thorough
        # lane budgets were tuned for ~5 s per property; the quick tier runs them three times over (module may override)
        tier_scale = getattr(mod, 'QUICK_SCALE', 3.0) if a.tier == 'quick' else getattr(mod, 'THOROUGH_SCALE', 2.0)
        budget = int(budget * a.scale * (tier_scale if lane.custom is None else 1))
        if budget <= 0:
            continue
        if lane.custom is not None:
            # custom(tier, seed, shard, nshards): enumerations split their space over the shards
            nsh = lane.shards or 1
            for s in range(nsh):
                tasks.append((mod.__name__, lane.name, a.tier, seed, s, nsh, tuple(known_keys)))
            continue
        shards = lane.shards or min(a.workers, max(1, budget // 50))
        per = max(1, budget // shards)
        for s in range(shards):
            tasks.append((mod.__name__, lane.name, a.tier, seed, s, per, tuple(known_keys)))
    results = []
    if tasks:
        import shutil
        import tempfile
        os.makedirs(os.path.join(ROOT, '.work'), exist_ok=True)
        stop_dir = tempfile.mkdtemp(prefix='stop-', dir=os.path.join(ROOT, '.work'))
        os.environ['VLIB_STOP_DIR'] = stop_dir
        try:
            if a.workers <= 1:
                results = [run_shard(t) for t in tasks]
            else:
                ctx = multiprocessing.get_context('fork')
                with ctx.Pool(min(a.workers, len(tasks))) as pool:
                    results = pool.map(run_shard, tasks, chunksize=1)
        finally:
            shutil.rmtree(stop_dir, ignore_errors=True)

    per_lane = {}
    total = Stats()
    all_fail = {}
    for r in results:
        if 'error' in r:
            tb = [ln.strip() for ln in r['error'].strip().splitlines() if ln.strip()]
            harness_errors.append('lane %s shard %s: %s || %s' % (r['lane'], r['shard'], ' | '.join(tb[-7:]), r['error']))
            continue
        s = r['stats']
        pl = per_lane.setdefault(r['lane'], {'evaluations': 0, 'nontrivial': 0, 'wall_max': 0.0})
        pl['evaluations'] += s['evaluations']
        pl['nontrivial'] += s['nontrivial']
        pl['wall_max'] = round(max(pl['wall_max'], r.get('wall', 0.0)), 2)
        total.evaluations += s['evaluations']
        total.nontrivial += s['nontrivial']
        total.digests |= set(s['digests'])
        total.labels.update(s['labels'])
        total.discards.update(s['discards'])
        total.known_hits.update(s['known_hits'])
        for smp in s['samples']:
            if sum(1 for x in total.samples if x['lane'] == r['lane']) < 3 and len(total.samples) < 15:
                total.samples.append({'lane': r['lane'], 'case': smp})
        for f in r['failures']:
            all_fail.setdefault(f['key'], f)

    # 4. classify failures
    os.makedirs(os.path.join(ROOT, 'replays', prop), exist_ok=True)
    for key, f in sorted(all_fail.items()):
        if key in known_keys:
            continue
        name = 'seed%d-%s-%08x.json' % (seed, f['lane'], derive_seed(key))
        path = os.path.join('replays', prop, name)
        with open(os.path.join(ROOT, path), 'w') as fh:
            json.dump({'property': prop, 'lane': f['lane'], 'key': key, 'detail': f['detail'],
                       'case': f['case'], 'seed': seed, 'tier': a.tier}, fh, indent=1)
        violations.append((key, path, f['detail']))
    for k in known:
        hits = total.known_hits.get(k.get('key'), 0)
        if hits and not k.get('still'):
            line = 'KNOWN-FINDING: property=%s %s' % (prop, k['what'])
            if line not in known_lines:
                known_lines.append(line)

    # discard-rate guard: a generator that mostly produces undefined cases is a harness bug
    disc = sum(total.discards.values())
    if total.evaluations and disc > 0.35 * total.evaluations:
        harness_errors.append('discard rate %.1f%% too high: %s' % (100.0 * disc / total.evaluations, dict(total.discards)))

    # 5. evidence
    wall = time.time() - t0
    samples = total.samples or [{'note': 'no non-trivial case was produced'}]
    cov = {
        'evaluations': total.evaluations + reg_count,
        'distinct_nontrivial': len(total.digests),
        'rule': mod.RULE,
        'samples': samples,
        'nontrivial_total': total.nontrivial,
        'regressions_replayed': reg_count,
        'per_lane': per_lane,
        'labels': dict(sorted(total.labels.items())),
        'discarded': dict(total.discards),
        'known_finding_hits': dict(total.known_hits),
        'buckets': [{'key': k, 'replay': p} for k, p, _d in violations],
    }
    extra = getattr(mod, 'EXTRA_COVERAGE', None)
    if extra:
        cov.update(extra)
    ev = {
        'property_id': prop, 'tier': a.tier, 'seed': seed, 'level': 'exploration',
        'coverage': cov, 'assumptions': list(mod.ASSUMPTIONS), 'wall_s': round(wall, 2),
        'violations': len(violations),
    }
    err = validate_evidence(ev)
    if err:
        harness_errors.append('evidence does not validate: %s' % err)
    # runs against another tree (VERIF_REPO: seeded changes in scratch worktrees) must not overwrite the evidence of /repo
    ev_dir = 'evidence' if os.path.realpath(os.environ.get('VERIF_REPO', '/repo')) == os.path.realpath('/repo') else os.path.join('.work', 'evidence-other-tree')
    if a.lane:
        # a run restricted to some lanes (--lane, used while a lane is developed) is not the registered check
        ev_dir = os.path.join('.work', 'evidence-partial')
    os.makedirs(os.path.join(ROOT, ev_dir), exist_ok=True)
    with open(os.path.join(ROOT, ev_dir, prop + '.json'), 'w') as fh:
        json.dump(ev, fh, indent=1, sort_keys=True)

    # 6. report
    print('%s tier=%s seed=%d cases=%d nontrivial=%d distinct_nontrivial=%d discarded=%d wall=%.1fs' % (
        prop, a.tier, seed, total.evaluations, total.nontrivial, len(total.digests), disc, wall))
    for lname, pl in sorted(per_lane.items()):
        print('  lane %-14s cases=%-7d nontrivial=%-7d slowest_shard=%.1fs' % (lname, pl['evaluations'], pl['nontrivial'], pl['wall_max']))
    for line in known_lines:
        print(line)
    for key, path, detail in violations:
        print('--- failure bucket %s' % key)
        if detail:
            print(detail)
        print('VIOLATION property=%s replay=%s' % (prop, path))
    if violations:
        return 1
    if harness_errors:
        for h in harness_errors:
            print('HARNESS-ERROR property=%s %s' % (prop, h))
        return 2
    return 0


if __name__ == '__main__':
    sys.exit(main())
