"""Spelling variants of a formula: aliases, separators, redundant / minimal parentheses.

Precedence levels transcribed from the order of the alternatives of `expression`
in StlParser.g4 (tightest first).  Binary operators are left-associative; a prefix
operator's operand extends over every following binary operator that binds
tighter than the prefix operator.
"""
from . import formula as F

L_ATOM = 0
L_NEG = 1       # unary minus
L_MUL = 2       # * /
L_ADD = 3       # + -
L_CMP = 4       # <= < >= > == !==
L_NOT = 5
L_TEMP = 6      # always eventually historically once prev next s_prev s_next (prefix)
L_UNTIL = 7
L_UNLESS = 8
L_SINCE = 9
L_AND = 10
L_OR = 11
L_IMPLIES = 12
L_IFF = 13
L_XOR = 14

BIN_LEVEL = {'*': L_MUL, '/': L_MUL, '+': L_ADD, '-': L_ADD, 'until': L_UNTIL, 'unless': L_UNLESS, 'since': L_SINCE,
             'and': L_AND, 'or': L_OR, 'implies': L_IMPLIES, 'iff': L_IFF, 'xor': L_XOR}

ALIASES = {
    'always': 'G', 'eventually': 'F', 'until': 'U', 'unless': 'W', 'since': 'S', 'once': 'O',
    'historically': 'H', 'next': 'X', 'prev': 'Y', 's_next': 'sX', 's_prev': 'sY', 'not': '!',
    'and': '&', 'or': '|', 'implies': '->', 'iff': '<->',
}


class Tape(object):
    """A list of small integers consumed cyclically: every spelling choice is a pure function of it."""

    def __init__(self, values):
        self.v = list(values) or [0]
        self.i = 0

    def take(self, n):
        x = self.v[self.i % len(self.v)]
        self.i += 1
        return x % n


class Printed(object):
    __slots__ = ('text', 'level', 'open', 'first')

    def __init__(self, text, level, open_levels=(), first=''):
        self.text = text          # spelling
        self.level = level        # level of the top operator (L_ATOM if atomic / parenthesised)
        self.open = frozenset(open_levels)   # levels of prefix operators dangling on the right spine
        self.first = first


def paren(p):
    return Printed('(' + p.text + ')', L_ATOM, ())


def name(op, tape, aliases):
    if aliases and op in ALIASES and tape.take(2) == 1:
        return ALIASES[op]
    return op


def interval_text(a, b, bp, tape, aliases):
    s = bp(a, b)
    if aliases and tape.take(2) == 1:
        s = s.replace(',', ':')
    return s


def variant(f, tape, bp=F.default_bound_printer, aliases=True, minimal=True, extra_parens=True):
    """Printed form of f with choices taken from tape."""
    p = _variant(f, tape, bp, aliases, minimal, extra_parens)
    if extra_parens and tape.take(6) == 0:
        p = paren(p)
    return p


def _maybe_extra(p, tape, extra):
    if extra and tape.take(8) == 0:
        return paren(p)
    return p


def _variant(f, tape, bp, aliases, minimal, extra):
    k = f[0]

    def rec(g):
        return _maybe_extra(_variant(g, tape, bp, aliases, minimal, extra), tape, extra)

    def as_left(p, level):
        """operand followed by a binary operator of the given level, on its left side"""
        ok = minimal and p.level <= level and all(o < level for o in p.open)
        return p if ok else (p if p.level == L_ATOM else paren(p))

    def as_right(p, level):
        ok = minimal and (p.level < level or (p.level in (L_NEG, L_NOT, L_TEMP)))
        return p if ok else (p if p.level == L_ATOM else paren(p))

    if k == 'var':
        return Printed(f[1], L_ATOM)
    if k == 'const':
        return Printed(F.fmt_num(f[1]), L_ATOM)
    if k == 'un':
        op = f[1]
        if op in ('abs', 'sqrt', 'exp', 'ln', 'rise', 'fall'):
            return Printed('%s(%s)' % (op, rec(f[2]).text), L_ATOM)
        c = rec(f[2])
        if op == 'neg':
            # operand: atom, function, or another prefix operator; anything binary is parenthesised
            if not (minimal and (c.level == L_ATOM or c.level == L_NEG)):
                c = c if c.level == L_ATOM else paren(c)
            return Printed('- ' + c.text, L_NEG, {L_NEG} | set(c.open))
        lvl = L_NOT if op == 'not' else L_TEMP
        # operand extends over tighter binary operators; prefix operands need no parentheses
        if not (minimal and (c.level < lvl or c.level in (L_NOT, L_TEMP))):
            c = c if c.level == L_ATOM else paren(c)
        return Printed('%s %s' % (name(op, tape, aliases), c.text), lvl, {lvl} | set(c.open))
    if k == 'tun':
        c = rec(f[4])
        if not (minimal and (c.level < L_TEMP or c.level in (L_NOT, L_TEMP))):
            c = c if c.level == L_ATOM else paren(c)
        return Printed('%s%s %s' % (name(f[1], tape, aliases), interval_text(f[2], f[3], bp, tape, aliases), c.text),
                       L_TEMP, {L_TEMP} | set(c.open))
    if k == 'bin' and f[1] in ('pow', 'log'):
        return Printed('%s(%s,%s)' % (f[1], rec(f[2]).text, rec(f[3]).text), L_ATOM)
    if k in ('bin', 'pred', 'tbin'):
        if k == 'pred':
            level, optext = L_CMP, f[1]
            l, r = f[2], f[3]
        elif k == 'bin':
            level, optext = BIN_LEVEL[f[1]], name(f[1], tape, aliases)
            l, r = f[2], f[3]
        else:
            level = BIN_LEVEL[f[1]]
            optext = name(f[1], tape, aliases) + interval_text(f[2], f[3], bp, tape, aliases)
            l, r = f[4], f[5]
        pl = as_left(rec(l), level)
        pr = as_right(rec(r), level)
        return Printed('%s %s %s' % (pl.text, optext, pr.text), level, pr.open)
    raise ValueError(f)


def spec_text(f, tape, bp=F.default_bound_printer, aliases=True, minimal=True, extra_parens=True, head=True):
    body = variant(f, tape, bp, aliases, minimal, extra_parens).text
    text = body
    if head:
        h = tape.take(4)
        if h != 0:
            text = 'out = ' + body
    else:
        text = 'out = ' + body
    if tape.take(3) != 0:
        text += ';'
        # white space (a line break at the end of a file) or a comment after the final ';'
        text += ('', '', '', '\n', ' ', '\t\n', ' // end', ' /* end */', '\n\n')[tape.take(9)]
    else:
        # no final ';': the text may still end with a comment (whose last character may be a ';')
        text += ('', '', '', ' // an older version: x > 1;', ' /* checked; */', '\n// done;\n')[tape.take(6)]
    return text
