"""Decomposition of a formula into named sub-specifications / constants (C09, C12)."""
from fractions import Fraction

from hypothesis import strategies as st

from . import formula as F
from .dense import DENSE, DENSE_PAST, grid_signal, to_time
from .formula import Profile, from_json
from .monitors import build, exc_outcome

Q = Fraction(1, 4)
KINDS = ('dt_off', 'dt_on', 'dt_on_past', 'ct_off', 'ct_on')

DT_FULL = Profile(tbin=('since', 'until'), max_depth=4, reuse=0.3)
DT_PAST = Profile(un_temp=F.UN_PAST, bin_temp=F.BIN_PAST, tun=F.TUN_PAST, tbin=F.TBIN_PAST, max_depth=4, reuse=0.3)
DT_BFUT = Profile(un_temp=F.UN_PAST + ('next', 's_next'), bin_temp=F.BIN_PAST, tbin=('since', 'until'), max_depth=4, max_bound=3,
                  reuse=0.3)
CT_OFF = DENSE.copy(reuse=0.3)
CT_ON = DENSE_PAST.copy(reuse=0.3)


def profile_for(kind):
    return {'dt_off': DT_FULL, 'dt_on': DT_PAST, 'dt_on_past': DT_BFUT, 'ct_off': CT_OFF, 'ct_on': CT_ON}[kind]


def replace(f, target, by):
    if f == target:
        return by
    kids = F.children(f)
    if not kids:
        return f
    return F.rebuild(f, [replace(k, target, by) for k in kids])


@st.composite
def decomposed(draw, kind, tier='quick', max_subs=3, profile=None):
    """A formula, a list of hoisted sub-terms (inner first) and the way they are delivered."""
    p = profile or profile_for(kind)
    if tier == 'thorough':
        p = p.copy(max_depth=p.max_depth + 1)
    f, vs = draw(F.formulas(p))
    cands = [s for s in set(F.subterms(f)) if s[0] not in ('var', 'const') and s != f and F.fvars(s)]
    if draw(st.integers(0, 3)) == 0:
        # also leaves: a sub-specification that is a bare constant or a bare variable ("a = 3;", "b = x;")
        cands += [s for s in set(F.subterms(f)) if s[0] in ('var', 'const') and s != f]
    cands.sort(key=lambda s: (F.size(s), repr(s)))
    k = min(draw(st.sampled_from([0, 1, 1, 2, 2, 3])), max_subs, len(cands))
    subs = []
    if k:
        # prefer sub-terms that occur several times or contain temporal operators
        allsub = list(F.subterms(f))
        weighted = []
        for i, cnd in enumerate(cands):
            w = 1 + (2 if allsub.count(cnd) >= 2 else 0) + (2 if F.n_temporal(cnd) >= 1 else 0)
            weighted += [i] * w
        idx = sorted(set(draw(st.lists(st.sampled_from(weighted), min_size=k, max_size=k))))
        subs = [cands[i] for i in idx]        # sorted by size: inner terms first
    consts = []
    lits = sorted(set(s[1] for s in F.subterms(f) if s[0] == 'const'))
    if lits and draw(st.integers(0, 2)) == 0:
        consts = [lits[draw(st.integers(0, len(lits) - 1))]]
    # a bound value that is delivered through a declared constant ("eventually[0:T s] ...")
    bvals = sorted(set(b for st_ in F.subterms(f) if st_[0] in ('tun', 'tbin') for b in (st_[2], st_[3])))
    bound_const = None
    if bvals and draw(st.integers(0, 2)) == 0:
        bound_const = [draw(st.sampled_from(bvals)), draw(st.sampled_from(['', 's']))]
    case = {
        'kind': kind, 'formula': f, 'vars': vs, 'subs': subs, 'consts': consts, 'bound_const': bound_const,
        'delivery': draw(st.sampled_from(['add_sub_spec', 'assertions'])),
        'declare_names': draw(st.booleans()),
        # layout of every requirement text: comments before / after it, line breaks, with or without the final ';'
        'decor': draw(st.lists(st.integers(0, len(DECOR) - 1), min_size=4, max_size=4)) if draw(st.booleans()) else None,
        'via_file': draw(st.sampled_from([False, False, False, True])),
        'late_inline': draw(st.integers(0, 2)) if draw(st.integers(0, 3)) == 0 else None,
        'extra': None,
        'name_twin': draw(st.integers(0, 5)) == 0,
        'odd_name': draw(st.sampled_from([None, None, None, None, None, 'time', 'time', 'results', 'value', 'rob', 'dataset'])),
    }
    if draw(st.integers(0, 5)) == 0:
        # a named requirement whose text also stands written out inside a requirement defined before it
        pairs = [(s1, s2) for s1 in cands for s2 in cands if s1 != s2 and s1[0] not in ('var', 'const') and s1 in set(F.subterms(s2))]
        # after pastify(): prefer a written-out copy that the pastifier has to delay inside the earlier requirement
        delayed = [(s1, s2) for s1, s2 in pairs if kind == 'dt_on_past' and any(d != 0 for d in occurrences_delay(s2, s1))]
        pairs = delayed or pairs
        if kind == 'dt_on_past' and not delayed:
            # build one: a requirement in which the written-out copy stands next to a bounded future operator
            small = [s for s in cands if s[0] not in ('var', 'const')] or [('pred', '>=', ('var', vs[0]), ('const', 1.0))]
            s1 = draw(st.sampled_from(sorted(small, key=repr)))
            b = draw(st.integers(1, 3))
            fut = ('tun', draw(st.sampled_from(['eventually', 'always'])), draw(st.integers(0, b)), b,
                   ('pred', draw(st.sampled_from(['>=', '<'])), ('var', draw(st.sampled_from(vs))), ('const', 1.0)))
            s2 = ('bin', draw(st.sampled_from(['and', 'or', 'implies'])), s1, fut)
            f = ('bin', draw(st.sampled_from(['and', 'or'])), s2, f)
            case['formula'] = f
            if 'trace' in case:
                n = (F.horizon(f) or 0) + draw(st.sampled_from([2, 3, 5]))
                case['trace'] = draw(F.traces(vs, n=n))
            pairs = [(s1, s2)]
        if pairs:
            s1, s2 = draw(st.sampled_from(sorted(pairs, key=repr)))
            case['subs'] = sorted([s1, s2], key=lambda s: (F.size(s), repr(s)))
            case['late_inline'] = case['subs'].index(s1)
    if draw(st.integers(0, 3)) == 0:
        g, _ = draw(F.formulas(p.copy(max_depth=2), variables=vs))
        if kind == 'dt_on_past' and draw(st.booleans()):
            # ... whose look-ahead is longer than that of the requirement that is monitored
            used_f = F.fvars(case['formula']) or vs
            g = ('tun', draw(st.sampled_from(['always', 'eventually'])), 0, (F.horizon(case['formula']) or 0) + draw(st.integers(1, 3)),
                 ('pred', draw(st.sampled_from(['<', '>='])), ('var', draw(st.sampled_from(sorted(used_f)))), ('const', 2.0)))
        if set(F.fvars(g)) <= set(F.fvars(case['formula'])) and F.fvars(g):
            case['extra'] = g
    if kind.startswith('dt'):
        n = draw(F.trace_lengths(10))
        if kind == 'dt_on_past':
            n = (F.horizon(f) or 0) + draw(st.sampled_from([1, 2, 3, 5]))
        case['trace'] = draw(F.traces(vs, n=n))
    else:
        case['signals'] = {v: draw(grid_signal(0, max_samples=6)) for v in vs}
        case['chunks'] = draw(st.integers(1, 3))
    return case


def occurrences_delay(f, target):
    """For a pastified host f: set of (remaining horizon - own horizon) over all occurrences of sub-term target."""
    out = set()
    ht = F.horizon(target) or 0

    def walk(g, R):
        if g == target:
            out.add(R - ht)
        k = g[0]
        kids = F.children(g)
        if not kids:
            return
        op = F.op_of(g)
        if op in ('eventually[]', 'always[]', 'until[]'):
            for c in kids:
                walk(c, R - g[3])
        elif op in ('next', 's_next'):
            walk(kids[0], R - 1)
        else:
            hg = F.horizon(g) or 0
            for c in kids:
                walk(c, hg)
    walk(f, F.horizon(f) or 0)
    return out


DECOR = [
    lambda t: t + ';',
    lambda t: t + '; // the requirement ends here',
    lambda t: '// a named requirement\n' + t + ';',
    lambda t: '/* a named\n requirement */ ' + t + ';',
    lambda t: t + '\n;',
    lambda t: t + '; /* end */',
    lambda t: '\n' + t + ';\n',
    lambda t: t + ';\t',
]


# a text handed to add_sub_spec() is a specification text of its own: its final ';' may be omitted
DECOR_NO_SEMICOLON = [lambda t: t, lambda t: t + '\n', lambda t: t + ' // the last line']


def decorate(case, i, t):
    d = case.get('decor')
    if d and case.get('delivery') == 'add_sub_spec' and d[(i + 1) % len(d)] % 3 == 0:
        return DECOR_NO_SEMICOLON[d[i % len(d)] % 3](t)
    return DECOR[d[i % len(d)]](t) if d else t + ';'


def sub_names(case):
    names = ['sub%d' % i for i in range(len(case['subs']))]
    if case.get('name_twin') and names:
        names[0] = 'ok'           # next to a requirement 'is_ok' with the same text (see modular_texts)
    if case.get('odd_name') and names:
        # a legal identifier that an implementation may use as a key of its own ('time' is the time column of a data set)
        names[-1] = case['odd_name']
    return names


def modular_texts(case, printer):
    """Returns (list of (name, text) for the sub-specs in dependency order, main text, const declarations)."""
    f = from_json(case['formula'])
    subs = [from_json(s) for s in case['subs']]
    names = sub_names(case)
    const_decl = []
    cmap = {}
    for i, c in enumerate(case['consts']):
        cmap[c] = 'k%d' % i
        const_decl.append(('k%d' % i, 'float', F.fmt_num(c)))

    def with_consts(g):
        for c, nm in cmap.items():
            g = replace(g, ('const', c), ('var', nm))
        return g
    bodies = []
    main = f
    # hoist larger terms first in the main formula, then inside the smaller bodies
    order = sorted(range(len(subs)), key=lambda i: -F.size(subs[i]))
    for i in order:
        main = replace(main, subs[i], ('var', names[i]))
    late = case.get('late_inline')
    if late is not None and not (0 <= late < len(subs)):
        late = None
    for i, s in enumerate(subs):
        body = s
        for j in order:
            # the sub-specification `late` is written out in the other bodies (not referenced by name) and defined last
            if j != i and j != late and F.size(subs[j]) < F.size(s):
                body = replace(body, subs[j], ('var', names[j]))
        bodies.append((names[i], printer(with_consts(body))))
    if late is not None:
        bodies.append(bodies.pop(late))
    if case.get('name_twin') and bodies:
        # a further requirement with the same text under a name that ends with the name of the first one, defined before it:
        # "is_ok = phi;" then "ok = phi;" (the text of the second is contained in the text of the first)
        i = [n for n, _t in bodies].index('ok') if 'ok' in [n for n, _t in bodies] else None
        if i is not None:
            bodies.insert(i, ('is_ok', bodies[i][1]))
    extra = case.get('extra')
    if extra is not None:
        # a further requirement that nothing refers to (it has its own horizon)
        bodies.append(('watchdog', printer(with_consts(from_json(extra)))))
    return bodies, printer(with_consts(main)), const_decl


def printer_for(kind, bound_const=None):
    """Printer of formulas; with bound_const = [k, unit] every bound equal to k grid steps is written as the constant kb."""
    scale = Q if kind.startswith('ct') else Fraction(1)

    def bp(a, b):
        def one(k):
            if bound_const and k == bound_const[0]:
                return 'kb' + (' ' + bound_const[1] if bound_const[1] else '')
            return F.fmt_frac(k * scale)
        return '[%s,%s]' % (one(a), one(b))
    return lambda g: F.show(g, bp)


def bound_const_decl(case):
    bc = case.get('bound_const')
    if not bc:
        return []
    scale = Q if case['kind'].startswith('ct') else Fraction(1)
    return [('kb', 'float', F.fmt_frac(bc[0] * scale))]


def build_modular(case, inline=False):
    """Construct the specification object of the case (modular or inlined)."""
    kind = case['kind']
    f = from_json(case['formula'])
    pr = printer_for(kind)
    used = [v for v in case['vars'] if v in F.fvars(f)]
    base_kind = {'dt_off': 'dt_off', 'dt_on': 'dt_on', 'dt_on_past': 'dt_on', 'ct_off': 'ct_off', 'ct_on': 'ct_on'}[kind]
    # interface-aware semantics and io declarations of the variables (C06 lane modular); the combined classes carry them
    if case.get('combined'):
        base_kind = base_kind[:2]          # the combined class of the README (offline and online in one object)
    ia = {}
    if case.get('unit'):
        ia['unit'] = case['unit']          # default unit of the specification (C10 histories that change it)
    if case.get('sem'):
        ia.update(semantics=case['sem'], io_types={v: t for v, t in (case.get('io') or {}).items() if t and v in used})
        base_kind = base_kind[:2]
    if inline:
        return build(base_kind, 'out = ' + pr(f), used, pastify=(kind == 'dt_on_past'), **ia)
    pr = printer_for(kind, case.get('bound_const'))
    bodies, main, const_decl = modular_texts(case, pr)
    const_decl = list(const_decl) + bound_const_decl(case)
    declared = list(used)
    if case.get('surplus') and not case.get('surplus_is_sub'):
        # a variable that is declared (and supplied with data by feed()) although no requirement reads it
        declared.append(case['surplus'])
    if case['declare_names']:
        declared += [n for n, _ in bodies]
    if case['delivery'] == 'add_sub_spec':
        subspecs = [decorate(case, i, '%s = %s' % (n, t)) for i, (n, t) in enumerate(bodies)]
        text = 'out = ' + main
    else:
        subspecs = []
        sep = '\n' if case.get('decor') else ' '
        text = sep.join(decorate(case, i, '%s = %s' % (n, t)) for i, (n, t) in enumerate(bodies)) + sep + 'out = ' + main
    prev = case.get('previous')
    if prev and case['delivery'] == 'assertions':
        # the object was first parsed with another text that binds the same names to other formulas, then the text was
        # edited and parsed again
        pc = dict(case, formula=prev['formula'], subs=prev['subs'], consts=[], bound_const=None, extra=None, late_inline=None)
        pbodies, pmain, _ = modular_texts(pc, printer_for(kind))
        was_req = prev.get('signal_was_requirement')
        if was_req:
            # a signal of the new text was the name of a requirement of the previous text (and is not declared through
            # the API: the parser declares it when it meets it)
            pbodies = list(pbodies) + [(was_req, pmain)]
            pmain = was_req
            if not prev.get('declare_was_req'):
                declared = [v for v in declared if v != was_req]
        ptext = ' '.join('%s = %s;' % (n, t) for n, t in pbodies) + ' out = ' + pmain
        pused = [v for v in case['vars'] if v in F.fvars(from_json(prev['formula']))]
        if prev.get('mode') == 'redefine':
            # one text in which the names are defined twice: the later definition is the one in force
            text2 = ' '.join('%s = %s;' % (n, t) for n, t in pbodies) + ' ' + text
            return build(base_kind, text2, declared + [v for v in pused if v not in declared], consts=const_decl,
                         pastify=(kind == 'dt_on_past'), **ia)
        spec = build(base_kind, ptext, declared + [v for v in pused if v not in declared], consts=const_decl, **ia)
        spec.spec = text
        spec.parse()
        if kind == 'dt_on_past':
            spec.pastify()
        return spec
    if case.get('via_file'):
        # the text reaches the object through a file and the loader of the specification class
        import os
        import tempfile
        from .runner import ROOT
        spec = build(base_kind, text, declared, consts=const_decl, subspecs=subspecs, parse=False, **ia)
        os.makedirs(os.path.join(ROOT, '.work'), exist_ok=True)
        fd, path = tempfile.mkstemp(prefix='spec-', suffix='.stl', dir=os.path.join(ROOT, '.work'))
        try:
            with os.fdopen(fd, 'w') as fh:
                fh.write(text)
            spec.spec = spec.get_spec_from_file(path)
        finally:
            os.unlink(path)
        spec.parse()
        if kind == 'dt_on_past':
            spec.pastify()
        return spec
    return build(base_kind, text, declared, consts=const_decl, subspecs=subspecs, pastify=(kind == 'dt_on_past'), **ia)


def surplus_value(i):
    """Sample number i of the surplus variable of a case (case['surplus']): any data would do, it is never read."""
    return float((7 * i) % 5) - 1.5


def feed(case, spec, collect=None, supplied=None):
    """Run the data of the case through spec; returns the list of outputs (one per call).
    collect(spec, call_index) is invoked after every call. A case with a surplus variable supplies data for it in every
    call (where it stands in the call is part of the case); `supplied` receives what each call handed over for it."""
    kind = case['kind']
    f = from_json(case['formula'])
    used = [v for v in case['vars'] if v in F.fvars(f)]
    sur = case.get('surplus')
    pos = case.get('surplus_pos', 0)
    outs = []

    def place(items, item):
        items = list(items)
        items.insert(min(pos, len(items)), item)
        return items
    if kind == 'dt_off':
        n = len(case['trace'][used[0]])
        ds = {'time': [float(i) for i in range(n)]}
        for v in used:
            ds[v] = [float(x) for x in case['trace'][v]]
        if sur:
            ds[sur] = [surplus_value(i) for i in range(n)]
            if supplied is not None:
                supplied.append(list(ds[sur]))
        outs.append(spec.evaluate(ds))
        if collect:
            collect(spec, 0)
    elif kind in ('dt_on', 'dt_on_past'):
        n = len(case['trace'][used[0]])
        for i in range(n):
            args = [(v, float(case['trace'][v][i])) for v in used]
            if sur:
                args = place(args, (sur, surplus_value(i)))
                if supplied is not None:
                    supplied.append(surplus_value(i))
            outs.append(spec.update(i, args))
            if collect:
                collect(spec, i)
    else:
        sig = to_time({v: [(int(k), float(x)) for k, x in case['signals'][v]] for v in used}, Q)
        if sur:
            # sampled at the instants of the first variable the requirements read
            sig[sur] = [[t, surplus_value(i)] for i, (t, _) in enumerate(sig[used[0]])]
        if kind == 'ct_off':
            args = [[v, sig[v]] for v in used]
            if sur:
                args = place(args, [sur, sig[sur]])
                if supplied is not None:
                    supplied.append([list(s) for s in sig[sur]])
            outs.append(spec.evaluate(*args))
            if collect:
                collect(spec, 0)
        else:
            ts = sorted(set(t for v in used for t, _ in sig[v]))
            nch = min(case.get('chunks', 1), len(ts))
            step = max(1, len(ts) // nch)
            cuts = [ts[i] for i in range(step, len(ts), step)][:nch - 1]
            lo = -1.0
            ci = 0
            for hi in cuts + [float('inf')]:
                batch = [[v, [s for s in sig[v] if lo < s[0] <= hi]] for v in used]
                if sur:
                    sb = [s for s in sig[sur] if lo < s[0] <= hi]
                    batch = place(batch, [sur, sb])
                    if supplied is not None:
                        supplied.append([list(s) for s in sb])
                outs.append(spec.update(*batch))
                if collect:
                    collect(spec, ci)
                ci += 1
                lo = hi
    return outs


def mod_candidates(case):
    from .common import formula_candidates
    if case['subs']:
        for i in range(len(case['subs'])):
            c = dict(case)
            c['subs'] = case['subs'][:i] + case['subs'][i + 1:]
            yield c
    if case['consts']:
        c = dict(case)
        c['consts'] = []
        yield c
    if case.get('bound_const'):
        c = dict(case)
        c['bound_const'] = None
        yield c
    f = from_json(case['formula'])
    subs = [from_json(s) for s in case['subs']]
    for f2 in formula_candidates(f):
        if f2[0] == 'const' or not F.fvars(f2):
            continue
        st2 = set(F.subterms(f2))
        c = dict(case)
        c['formula'] = f2
        c['subs'] = [s for s in subs if s in st2 and s != f2]
        c['consts'] = [k for k in case['consts'] if ('const', k) in st2]
        yield c
    if 'trace' in case:
        n = len(next(iter(case['trace'].values())))
        if n > 1:
            c = dict(case)
            c['trace'] = {v: xs[:-1] for v, xs in case['trace'].items()}
            yield c
    if case.get('chunks', 1) > 1:
        c = dict(case)
        c['chunks'] = 1
        yield c
