"""Dense-time case shapes: grid signals, strategies, comparison of step functions."""
import math
from fractions import Fraction

from hypothesis import strategies as st

from . import formula as F
from .formula import Profile, from_json
from .refsem import same, step_at

# operators the dense-time monitors support
DENSE = Profile(events=(), un_temp=('once', 'historically', 'eventually', 'always'),
                bin_temp=('since', 'until'), tun=F.TUN_PAST + F.TUN_FUT, tbin=('since', 'until'),
                max_depth=4, max_bound=8, nvars=2)
DENSE_PAST = DENSE.copy(un_temp=('once', 'historically'), bin_temp=('since',), tun=F.TUN_PAST, tbin=('since',))

QUANTA = {'quick': [Fraction(1, 4)], 'thorough': [Fraction(1, 4), Fraction(1, 8), Fraction(1, 2)]}


@st.composite
def grid_signal(draw, k0, max_samples=8, max_gap=6, var_bound=8.0, min_samples=1):
    n = draw(st.sampled_from([m for m in (1, 2, 2, 3, 3, 4, 4, 5, 6, 7, 8, 10, 12, 16, 20) if min_samples <= m <= max_samples]))
    vals = draw(st.lists(F.values(var_bound), min_size=n, max_size=n))
    k = k0
    out = []
    for i in range(n):
        out.append([k, vals[i]])
        k += draw(st.sampled_from([1, 1, 2, 2, 3, 4, max_gap]))
    return out


@st.composite
def ct_cases(draw, profile, tier='quick', shifted=False, max_samples=8, fin=False, min_samples=1):
    f, vs = draw(F.formulas(profile, fin=fin))
    q = draw(st.sampled_from(QUANTA[tier]))
    # (also starts of the order of 2e9 time units - seconds since the epoch; k0 * q stays an exact float)
    k0 = draw(st.sampled_from([1, 2, 4, 7, 12, 2 ** 33, 6800000000])) if shifted else 0
    sig = {}
    for v in vs:
        sig[v] = draw(grid_signal(k0, max_samples=max_samples, var_bound=profile.var_bound, min_samples=min_samples))
    return {'formula': f, 'vars': vs, 'signals': sig, 'q': [q.numerator, q.denominator]}


def case_q(case):
    return Fraction(case['q'][0], case['q'][1])


def to_time(sig, q):
    """Cell-indexed signals -> rtamt sample lists (floats, exact because q is dyadic)."""
    return {v: [[float(k * q), float(x)] for k, x in s] for v, s in sig.items()}


def norm_signals(case):
    return {v: [(int(k), float(x)) for k, x in s] for v, s in case['signals'].items()}


def dense_text(f, q):
    return 'out = ' + F.show(f, F.make_scaled_bound_printer(q))


def check_shape(out):
    """None if `out` is a list of [time, value] pairs with non-decreasing finite times, else a message."""
    if not isinstance(out, list):
        return 'result is not a list: %r' % (out,)
    prev = None
    for p in out:
        if not isinstance(p, (list, tuple)) or len(p) != 2:
            return 'element is not a [time, value] pair: %r' % (p,)
        t = p[0]
        if not isinstance(t, (int, float)) or t != t or t in (float('inf'), float('-inf')):
            return 'time stamp is not a finite number: %r' % (p,)
        if prev is not None and t < prev:
            return 'time stamps decrease: %r after %r' % (t, prev)
        prev = t
    return None


def compare_ct(out, K0, Kend, ref, q, tol, t_from=None):
    """Compare the step function denoted by `out` with the cell values `ref` (ref[i] is cell K0+i)
    at every cell start and midpoint of [K0 q, Kend q] and at every output time stamp inside it.
    Returns None or (t, got, want)."""
    q = Fraction(q)
    pts = []
    for k in range(K0, Kend + 1):
        pts.append((Fraction(k) * q, k))
        if k < Kend:
            pts.append((Fraction(k) * q + q / 2, k))
    lo, hi = float(K0 * q), float(Kend * q)
    for p in out:
        t = p[0]
        if lo <= t <= hi:
            k = int(math.floor(Fraction(t) / q))
            pts.append((Fraction(t), k))
    for t, k in sorted(set(pts)):
        if t_from is not None and t < t_from:
            continue
        got = step_at(out, float(t))
        want = ref[k - K0]
        if got is None or not same(got, want, tol):
            return (float(t), got, want)
    return None


def ct_candidates(case):
    """Shrink candidates for dense cases."""
    from .common import formula_candidates
    f = from_json(case['formula'])
    sig = case['signals']
    seen = set()
    for f2 in formula_candidates(f):
        if f2 in seen or f2[0] == 'const':
            continue
        seen.add(f2)
        used = F.fvars(f2)
        if not used:
            continue
        c = dict(case)
        c['formula'] = f2
        c['vars'] = [v for v in case['vars'] if v in used]
        c['signals'] = {v: sig[v] for v in c['vars']}
        yield c
    for v, s in sig.items():
        if len(s) > 1:
            for i in range(len(s) - 1, 0, -1):
                c = dict(case)
                c['signals'] = dict(sig)
                c['signals'][v] = s[:i] + s[i + 1:]
                yield c
        for i, (k, x) in enumerate(s):
            if x not in (0.0, 1.0):
                for r in (0.0, 1.0):
                    c = dict(case)
                    c['signals'] = dict(sig)
                    c['signals'][v] = s[:i] + [[k, r]] + s[i + 1:]
                    yield c
        # move break-points closer together
        for i in range(1, len(s)):
            gap = s[i][0] - s[i - 1][0]
            if gap > 1:
                c = dict(case)
                c['signals'] = dict(sig)
                c['signals'][v] = s[:i] + [[k - (gap - 1), x] for k, x in s[i:]]
                yield c


def unaligned(sig):
    ks = [set(k for k, _ in s[1:]) for s in sig.values()]
    if len(ks) < 2:
        return False
    return any(a != b for a in ks for b in ks)
