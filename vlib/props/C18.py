"""C18 - temporal dualities and expansion laws hold in every monitor."""
from hypothesis import strategies as st

from .. import formula as F
from ..common import formula_candidates, feature_labels, fmt_vals
from ..formula import Profile, from_json, show
from ..monitors import run_dt_off, run_dt_on
from ..runner import Lane, PASS, FAIL, DISCARD

PROPERTY = 'C18'

RULE = ('Operands p, q from the typed grammar of the monitor kind, bounds a<=b, c<=d, one of the law schemata of the statement '
        '(not F[a,b] p = G[a,b] not p; not O[a,b] p = H[a,b] not p, also unbounded; p -> q = not p or q; F[a,b]F[c,d] p = F[a+c,b+d] p, '
        'same for once; discrete: since/until one-step expansions) instantiated as two specification texts evaluated by the same '
        'monitor on the same trace (discrete offline, discrete online, discrete online after pastify, dense offline, dense online; dense signals include long monotone runs under wide windows). Oracle: the two signals are identical (exact float equality: every law is an identity of '
        'min/max/negation on the same numbers). Non-trivial = an operand contains a temporal operator or the trace is shorter than '
        'b+d, and the common result is not constant; distinct = distinct (law, operands, bounds, trace, kind) digests.')

ASSUMPTIONS = [
    'future laws are checked offline (and online after pastify in the pastified lane); since/until expansions in discrete time only',
    'a side that raises where the other evaluates is a difference; if both raise the case is discarded (C17 territory)',
]

LAWS_PAST = ('not-once[]', 'not-once', 'implies', 'once-once', 'since-exp')
LAWS_FUT = ('not-ev[]', 'ev-ev', 'until-exp')


def sides(law, p, q, a, b, c, d):
    if law == 'not-ev[]':
        return ('un', 'not', ('tun', 'eventually', a, b, p)), ('tun', 'always', a, b, ('un', 'not', p))
    if law == 'not-once[]':
        return ('un', 'not', ('tun', 'once', a, b, p)), ('tun', 'historically', a, b, ('un', 'not', p))
    if law == 'not-once':
        return ('un', 'not', ('un', 'once', p)), ('un', 'historically', ('un', 'not', p))
    if law == 'implies':
        return ('bin', 'implies', p, q), ('bin', 'or', ('un', 'not', p), q)
    if law == 'ev-ev':
        return ('tun', 'eventually', a, b, ('tun', 'eventually', c, d, p)), ('tun', 'eventually', a + c, b + d, p)
    if law == 'once-once':
        return ('tun', 'once', a, b, ('tun', 'once', c, d, p)), ('tun', 'once', a + c, b + d, p)
    if law == 'since-exp':
        s = ('bin', 'since', p, q)
        return s, ('bin', 'or', q, ('bin', 'and', p, ('un', 's_prev', s)))
    if law == 'until-exp':
        u = ('bin', 'until', p, q)
        return u, ('bin', 'or', q, ('bin', 'and', p, ('un', 's_next', u)))
    raise ValueError(law)


FULL = Profile(tbin=('since', 'until', 'unless'), max_depth=3)
PAST = Profile(un_temp=F.UN_PAST, bin_temp=F.BIN_PAST, tun=F.TUN_PAST, tbin=F.TBIN_PAST, max_depth=3)


@st.composite
def cases(draw, tier, kind):
    prof = FULL if kind == 'dt_off' else PAST
    if tier == 'thorough':
        prof = prof.copy(max_depth=4, max_bound=6)
    laws = LAWS_PAST + LAWS_FUT if kind == 'dt_off' else LAWS_PAST
    law = draw(st.sampled_from(laws))
    nv = draw(st.integers(1, 3))
    start = draw(st.integers(0, len(F.VAR_POOL) - 1))
    vs = [F.VAR_POOL[(start + i) % len(F.VAR_POOL)] for i in range(nv)]
    p, _ = draw(F.formulas(prof, variables=vs))
    q, _ = draw(F.formulas(prof, variables=vs))
    if draw(st.integers(0, 9)) == 0:
        # an operand that is a literal or arithmetic on literals (the laws hold "for all sub-formulas")
        lit = draw(st.sampled_from([('const', 3.0), ('const', -2.0), ('bin', '-', ('const', 5.0), ('const', 2.0)), ('un', 'abs', ('const', -1.5))]))
        if draw(st.booleans()):
            p = lit
        else:
            q = lit
    mb = prof.max_bound
    b = draw(st.integers(0, mb))
    a = draw(st.integers(0, b))
    d = draw(st.integers(0, mb))
    c = draw(st.integers(0, d))
    n = draw(F.trace_lengths(12 if tier == 'quick' else 20))
    tr = draw(F.traces(vs, n=n))
    return {'law': law, 'p': p, 'q': q, 'a': a, 'b': b, 'c': c, 'd': d, 'vars': vs, 'trace': tr, 'kind': kind,
            'spell': draw(st.one_of(st.none(), st.lists(st.integers(0, 11), min_size=6, max_size=6)))}


def evaluate(kind, f, vs, tr, spell=None):
    if spell:
        # bounds (in samples, sampling period 1 s) spelled with explicit units; the same choices on both sides of a law
        from .C08 import Speller
        text = 'out = ' + F.show(f, Speller(10 ** 9, 's', spell))
    else:
        text = 'out = ' + show(f)
    if kind == 'dt_off':
        o = run_dt_off(text, vs, tr)
        if o[0] == 'ok':
            return ('ok', [p[1] for p in o[1]])
        return o
    if kind == 'dt_on':
        return run_dt_on(text, vs, tr)
    raise ValueError(kind)


def check(case):
    p = from_json(case['p'])
    q = from_json(case['q'])
    law = case['law']
    kind = case['kind']
    vs = list(case['vars'])
    tr = {v: [float(x) for x in case['trace'][v]] for v in vs}
    n = len(tr[vs[0]])
    lhs, rhs = sides(law, p, q, case['a'], case['b'], case['c'], case['d'])
    used = F.fvars(lhs)
    labels = ['law:' + law, 'kind:' + kind] + feature_labels(lhs, n)
    if not used:
        # a law instantiated with literals only ("for all sub-formulas"): the monitors still need a trace, one declared
        # variable that the formula does not read supplies its length
        labels.append('variable-free-operands')
        used = vs[:1]
    feed = [v for v in vs if v in used]
    w = {v: tr[v] for v in feed}
    ol = evaluate(kind, lhs, feed, w, case.get('spell'))
    orr = evaluate(kind, rhs, feed, w, case.get('spell'))
    desc = 'law %s on %s%s\nlhs: %s\nrhs: %s\ntrace: %s' % (law, kind, ' (bounds spelled with units, choices %s)' % case['spell'] if case.get('spell') else '',
                                                           show(lhs), show(rhs), w)
    if ol[0] != 'ok' and orr[0] != 'ok':
        return DISCARD('both-raise(C17)', labels)
    if ol[0] != 'ok' or orr[0] != 'ok':
        bad = ol if ol[0] != 'ok' else orr
        return FAIL('one-side-raises:%s:%s@%s' % (law, bad[1], bad[4]), desc + '\none side raised %s: %s at %s' % (bad[1], bad[3], bad[4]), labels)
    a, b = ol[1], orr[1]
    if any(x != x for x in a + b):
        return DISCARD('nan', labels)
    operand_temporal = F.n_temporal(p) >= 1 or (law in ('implies', 'since-exp', 'until-exp') and F.n_temporal(q) >= 1)
    nontrivial = (operand_temporal or n < case['b'] + case['d'] or max(case['b'], case['d']) >= 200) and len(set(a)) > 1
    if len(a) != len(b) or any(x != y for x, y in zip(a, b)):
        return FAIL('law:%s:%s' % (law, kind), desc + '\nlhs: %s\nrhs: %s' % (fmt_vals(a), fmt_vals(b)), labels)
    return PASS(nontrivial, labels)


def candidates(case):
    tr = case['trace']
    n = len(next(iter(tr.values())))
    for key in ('p', 'q'):
        f = from_json(case[key])
        if f[0] == 'var':
            continue
        cands = list(formula_candidates(f)) + [('var', case['vars'][0])]
        seen = set()
        for f2 in cands:
            if f2 in seen or f2[0] == 'const':
                continue
            seen.add(f2)
            c = dict(case)
            c[key] = f2
            yield c
    for key in ('a', 'b', 'c', 'd'):
        if case[key] > 0:
            c = dict(case)
            c[key] = case[key] - 1
            if c['a'] <= c['b'] and c['c'] <= c['d']:
                yield c
    if n > 1:
        c = dict(case)
        c['trace'] = {v: xs[:-1] for v, xs in tr.items()}
        yield c
        c = dict(case)
        c['trace'] = {v: xs[1:] for v, xs in tr.items()}
        yield c
    for v, xs in tr.items():
        for i, x in enumerate(xs):
            if x != 0.0:
                c = dict(case)
                c['trace'] = dict(tr)
                c['trace'][v] = xs[:i] + [0.0] + xs[i + 1:]
                yield c


# ---- pastified discrete online and dense time -----------------------------------

from fractions import Fraction                                    # noqa: E402
from ..dense import DENSE, DENSE_PAST, grid_signal, to_time, check_shape     # noqa: E402
from ..monitors import run_ct_off, run_ct_on                       # noqa: E402
from ..refsem import step_at                                       # noqa: E402

Q = Fraction(1, 4)
BFUT = Profile(un_temp=F.UN_PAST, bin_temp=F.BIN_PAST, tbin=('since', 'until'), max_depth=3, max_bound=3)
LAWS_DENSE = ('not-ev[]', 'not-once[]', 'not-once', 'implies', 'ev-ev', 'once-once')
LAWS_DENSE_ON = ('not-once[]', 'not-once', 'implies', 'once-once')
LAWS_PASTIFIED = ('not-ev[]', 'ev-ev', 'implies', 'not-once[]', 'once-once')


@st.composite
def cases2(draw, tier, kind):
    prof = {'dt_on_past': BFUT, 'ct_off': DENSE.copy(max_depth=3, max_bound=4), 'ct_on': DENSE_PAST.copy(max_depth=3, max_bound=4)}[kind]
    laws = {'dt_on_past': LAWS_PASTIFIED, 'ct_off': LAWS_DENSE, 'ct_on': LAWS_DENSE_ON}[kind]
    law = draw(st.sampled_from(laws))
    nv = draw(st.integers(1, 2))
    vs = list(F.VAR_POOL[:nv])
    p, _ = draw(F.formulas(prof, variables=vs))
    q, _ = draw(F.formulas(prof, variables=vs))
    b = draw(st.integers(0, 3))
    a = draw(st.integers(0, b))
    d = draw(st.integers(0, 3))
    c = draw(st.integers(0, d))
    case = {'law': law, 'p': p, 'q': q, 'a': a, 'b': b, 'c': c, 'd': d, 'vars': vs, 'kind': kind}
    if kind == 'dt_on_past':
        lhs, _r = sides(law, p, q, a, b, c, d)
        n = (F.horizon(lhs) or 0) + draw(st.sampled_from([1, 2, 3, 5]))
        case['trace'] = draw(F.traces(vs, n=n))
    elif draw(st.integers(0, 2)) == 0:
        # long, mostly monotone runs sampled every cell with wide windows: the sliding-window code needs several pops in a row
        sig = {}
        for v in vs:
            m = draw(st.integers(6, 12))
            vals = sorted(draw(st.lists(st.integers(-16, 16), min_size=m, max_size=m, unique=True)), reverse=draw(st.booleans()))
            for _ in range(draw(st.integers(0, 2))):
                vals[draw(st.integers(0, m - 1))] = draw(st.integers(-16, 16))
            sig[v] = [[i, x / 2.0] for i, x in enumerate(vals)]
        case['signals'] = sig
        case['b'] = draw(st.integers(2, 8))
        case['a'] = draw(st.integers(0, case['b']))
    else:
        case['signals'] = {v: draw(grid_signal(0, max_samples=6)) for v in vs}
    return case


def check2(case):
    p = from_json(case['p'])
    q = from_json(case['q'])
    law, kind = case['law'], case['kind']
    vs = list(case['vars'])
    lhs, rhs = sides(law, p, q, case['a'], case['b'], case['c'], case['d'])
    used = F.fvars(lhs)
    labels = ['law:' + law, 'kind:' + kind] + feature_labels(lhs)
    if not used:
        return DISCARD('no-variable', labels)
    feed = [v for v in vs if v in used]
    if kind == 'dt_on_past':
        if F.horizon(lhs) is None or F.horizon(lhs) != F.horizon(rhs):
            return DISCARD('horizons', labels)
        h = F.horizon(lhs)
        w = {v: [float(x) for x in case['trace'][v]] for v in feed}
        ol = run_dt_on('out = ' + show(lhs), feed, w, pastify=True)
        orr = run_dt_on('out = ' + show(rhs), feed, w, pastify=True)
        desc = 'law %s on the pastified discrete online monitor (horizon %d)\nlhs: %s\nrhs: %s\ntrace: %s' % (law, h, show(lhs), show(rhs), w)
        if ol[0] != 'ok' and orr[0] != 'ok':
            return DISCARD('both-raise(C17)', labels)
        if ol[0] != 'ok' or orr[0] != 'ok':
            bad = ol if ol[0] != 'ok' else orr
            return FAIL('one-side-raises:%s:%s' % (law, bad[1]), desc + '\none side raised %s: %s at %s' % (bad[1], bad[3], bad[4]), labels)
        a, b = ol[1][h:], orr[1][h:]
        if any(x != x for x in a + b):
            return DISCARD('nan', labels)
        if a != b:
            return FAIL('law:%s:%s' % (law, kind), desc + '\nlhs from update %d: %s\nrhs from update %d: %s' % (h, fmt_vals(a), h, fmt_vals(b)), labels)
        return PASS((F.n_temporal(p) >= 1 or h >= 2) and len(set(a)) > 1, labels)
    bp = F.make_scaled_bound_printer(Q)
    sig = to_time({v: [(int(k), float(x)) for k, x in case['signals'][v]] for v in feed}, Q)
    tl, tr_ = 'out = ' + F.show(lhs, bp), 'out = ' + F.show(rhs, bp)
    if kind == 'ct_off':
        ol, orr = run_ct_off(tl, feed, sig), run_ct_off(tr_, feed, sig)
        outs = [ol[1] if ol[0] == 'ok' else None, orr[1] if orr[0] == 'ok' else None]
    else:
        ol, orr = run_ct_on(tl, feed, [sig]), run_ct_on(tr_, feed, [sig])
        outs = [ol[1][0] if ol[0] == 'ok' else None, orr[1][0] if orr[0] == 'ok' else None]
    desc = 'law %s on %s\nlhs: %s\nrhs: %s\nsignals: %s' % (law, kind, tl, tr_, sig)
    if ol[0] != 'ok' and orr[0] != 'ok':
        return DISCARD('both-raise(C17)', labels)
    if ol[0] != 'ok' or orr[0] != 'ok':
        bad = ol if ol[0] != 'ok' else orr
        return FAIL('one-side-raises:%s:%s' % (law, bad[1]), desc + '\none side raised %s: %s at %s' % (bad[1], bad[3], bad[4]), labels)
    if check_shape(outs[0]) or check_shape(outs[1]):
        return DISCARD('shape(C04/C05)', labels)
    if not outs[0] or not outs[1]:
        if bool(outs[0]) != bool(outs[1]):
            return FAIL('law:%s:%s' % (law, kind), desc + '\nlhs: %r\nrhs: %r' % (outs[0], outs[1]), labels)
        return PASS(False, labels)
    kend = min(case['signals'][v][-1][0] for v in feed)
    hi = min(outs[0][-1][0], outs[1][-1][0], float(kend * Q))
    k2 = 0
    vals = set()
    while float(Fraction(k2, 2) * Q) <= hi:
        t = float(Fraction(k2, 2) * Q)
        x, y = step_at(outs[0], t), step_at(outs[1], t)
        if x is None or y is None or x != y:
            return FAIL('law:%s:%s' % (law, kind), desc + '\nat t=%g: lhs %r, rhs %r\nlhs: %r\nrhs: %r' % (t, x, y, outs[0], outs[1]), labels)
        vals.add(x)
        k2 += 1
    return PASS(F.n_temporal(p) >= 1 and len(vals) > 1, labels)


def candidates2(case):
    for c in candidates(dict(case, trace=case.get('trace', {'_': [0.0]}))):
        c = dict(c)
        if 'trace' not in case:
            c.pop('trace', None)
        elif len(next(iter(c['trace'].values()))) < len(next(iter(case['trace'].values()))):
            continue
        yield c


@st.composite
def giant_law_cases(draw, tier):
    """The duality and composition laws with windows of 200..1100 samples (around 256, 512, 1024) on mostly flat traces with
    isolated extreme samples; discrete time, offline and online."""
    from ..common import spiky_trace, GIANT_WIDTHS
    kind = draw(st.sampled_from(['dt_off', 'dt_off', 'dt_on']))
    law = draw(st.sampled_from(['not-ev[]', 'not-once[]', 'ev-ev', 'once-once'] if kind == 'dt_off' else ['not-once[]', 'once-once']))
    vs = ['x', 'y']
    x = ('var', draw(st.sampled_from(vs)))
    p = draw(st.sampled_from([x, x, ('pred', '>=', x, ('const', 1.0)), ('un', 'not', ('pred', '<', x, ('var', 'y'))), ('un', 'abs', x)]))
    width = draw(st.sampled_from(GIANT_WIDTHS))
    a = draw(st.sampled_from([0, 0, 1, 3, 17, 100, 300]))
    b = a + width
    d = draw(st.sampled_from([0, 1, 2, 5, 256, 300]))
    c = draw(st.sampled_from([0, min(d, 1), min(d, 3), d]))
    if law in ('ev-ev', 'once-once') and draw(st.booleans()):
        a, b, c, d = c, d, a, b               # the wide window inside the narrow one
    reach = b + (d if law in ('ev-ev', 'once-once') else 0)
    lo = a + (c if law in ('ev-ev', 'once-once') else 0)
    n = draw(st.sampled_from([1, 2, max(1, lo), lo + 1, lo + 2, max(1, reach - 1), reach, reach + 1, reach + 2, reach + 3, reach + 10, reach + 50,
                              reach + 200, reach + 500, 2 * reach + 5]))
    tr = draw(spiky_trace(vs, n))
    return {'law': law, 'p': p, 'q': ('var', 'y'), 'a': a, 'b': b, 'c': c, 'd': d, 'vars': vs, 'trace': tr, 'kind': kind, 'spell': None}


LANES = [
    Lane('giant', giant_law_cases, check, 80, 800, None),
    Lane('dt_off', lambda tier: cases(tier, 'dt_off'), check, 4000, 60000, candidates),
    Lane('dt_on', lambda tier: cases(tier, 'dt_on'), check, 3000, 40000, candidates),
    Lane('dt_on_past', lambda tier: cases2(tier, 'dt_on_past'), check2, 2000, 30000, candidates2),
    Lane('ct_off', lambda tier: cases2(tier, 'ct_off'), check2, 2500, 40000, candidates2),
    Lane('ct_on', lambda tier: cases2(tier, 'ct_on'), check2, 1500, 20000, candidates2),
]
