"""C18 - temporal dualities and expansion laws hold in every monitor."""
from hypothesis import strategies as st

from .. import formula as F
from ..common import formula_candidates, feature_labels, fmt_vals
from ..formula import Profile, from_json, show
from ..monitors import run_dt_off, run_dt_on
from ..runner import Lane, PASS, FAIL, DISCARD

PROPERTY = 'C18'

RULE = ('Operands p, q from the typed grammar of the monitor kind, bounds a<=b, c<=d, one of the law schemata of the statement '
        '(not F[a,b] p = G[a,b] not p; not O[a,b] p = H[a,b] not p, also unbounded; p -> q = not p or q; F[a,b]F[c,d] p = F[a+c,b+d] p, '
        'same for once; discrete: since/until one-step expansions) instantiated as two specification texts evaluated by the same '
        'monitor on the same trace. Oracle: the two signals are identical (exact float equality: every law is an identity of '
        'min/max/negation on the same numbers). Non-trivial = an operand contains a temporal operator or the trace is shorter than '
        'b+d, and the common result is not constant; distinct = distinct (law, operands, bounds, trace, kind) digests.')

ASSUMPTIONS = [
    'future laws are checked offline (and online after pastify in the pastified lane); since/until expansions in discrete time only',
    'a side that raises where the other evaluates is a difference; if both raise the case is discarded (C17 territory)',
]

LAWS_PAST = ('not-once[]', 'not-once', 'implies', 'once-once', 'since-exp')
LAWS_FUT = ('not-ev[]', 'ev-ev', 'until-exp')


def sides(law, p, q, a, b, c, d):
    if law == 'not-ev[]':
        return ('un', 'not', ('tun', 'eventually', a, b, p)), ('tun', 'always', a, b, ('un', 'not', p))
    if law == 'not-once[]':
        return ('un', 'not', ('tun', 'once', a, b, p)), ('tun', 'historically', a, b, ('un', 'not', p))
    if law == 'not-once':
        return ('un', 'not', ('un', 'once', p)), ('un', 'historically', ('un', 'not', p))
    if law == 'implies':
        return ('bin', 'implies', p, q), ('bin', 'or', ('un', 'not', p), q)
    if law == 'ev-ev':
        return ('tun', 'eventually', a, b, ('tun', 'eventually', c, d, p)), ('tun', 'eventually', a + c, b + d, p)
    if law == 'once-once':
        return ('tun', 'once', a, b, ('tun', 'once', c, d, p)), ('tun', 'once', a + c, b + d, p)
    if law == 'since-exp':
        s = ('bin', 'since', p, q)
        return s, ('bin', 'or', q, ('bin', 'and', p, ('un', 's_prev', s)))
    if law == 'until-exp':
        u = ('bin', 'until', p, q)
        return u, ('bin', 'or', q, ('bin', 'and', p, ('un', 's_next', u)))
    raise ValueError(law)


FULL = Profile(tbin=('since', 'until', 'unless'), max_depth=3)
PAST = Profile(un_temp=F.UN_PAST, bin_temp=F.BIN_PAST, tun=F.TUN_PAST, tbin=F.TBIN_PAST, max_depth=3)


@st.composite
def cases(draw, tier, kind):
    prof = FULL if kind == 'dt_off' else PAST
    if tier == 'thorough':
        prof = prof.copy(max_depth=4, max_bound=6)
    laws = LAWS_PAST + LAWS_FUT if kind == 'dt_off' else LAWS_PAST
    law = draw(st.sampled_from(laws))
    nv = draw(st.integers(1, 3))
    start = draw(st.integers(0, len(F.VAR_POOL) - 1))
    vs = [F.VAR_POOL[(start + i) % len(F.VAR_POOL)] for i in range(nv)]
    p, _ = draw(F.formulas(prof, variables=vs))
    q, _ = draw(F.formulas(prof, variables=vs))
    mb = prof.max_bound
    b = draw(st.integers(0, mb))
    a = draw(st.integers(0, b))
    d = draw(st.integers(0, mb))
    c = draw(st.integers(0, d))
    n = draw(F.trace_lengths(12 if tier == 'quick' else 20))
    tr = draw(F.traces(vs, n=n))
    return {'law': law, 'p': p, 'q': q, 'a': a, 'b': b, 'c': c, 'd': d, 'vars': vs, 'trace': tr, 'kind': kind}


def evaluate(kind, f, vs, tr):
    text = 'out = ' + show(f)
    if kind == 'dt_off':
        o = run_dt_off(text, vs, tr)
        if o[0] == 'ok':
            return ('ok', [p[1] for p in o[1]])
        return o
    if kind == 'dt_on':
        return run_dt_on(text, vs, tr)
    raise ValueError(kind)


def check(case):
    p = from_json(case['p'])
    q = from_json(case['q'])
    law = case['law']
    kind = case['kind']
    vs = list(case['vars'])
    tr = {v: [float(x) for x in case['trace'][v]] for v in vs}
    n = len(tr[vs[0]])
    lhs, rhs = sides(law, p, q, case['a'], case['b'], case['c'], case['d'])
    used = F.fvars(lhs)
    labels = ['law:' + law, 'kind:' + kind] + feature_labels(lhs, n)
    if not used:
        return DISCARD('no-variable', labels)
    feed = [v for v in vs if v in used]
    w = {v: tr[v] for v in feed}
    ol = evaluate(kind, lhs, feed, w)
    orr = evaluate(kind, rhs, feed, w)
    desc = 'law %s on %s\nlhs: %s\nrhs: %s\ntrace: %s' % (law, kind, show(lhs), show(rhs), w)
    if ol[0] != 'ok' and orr[0] != 'ok':
        return DISCARD('both-raise(C17)', labels)
    if ol[0] != 'ok' or orr[0] != 'ok':
        bad = ol if ol[0] != 'ok' else orr
        return FAIL('one-side-raises:%s:%s@%s' % (law, bad[1], bad[4]), desc + '\none side raised %s: %s at %s' % (bad[1], bad[3], bad[4]), labels)
    a, b = ol[1], orr[1]
    if any(x != x for x in a + b):
        return DISCARD('nan', labels)
    operand_temporal = F.n_temporal(p) >= 1 or (law in ('implies', 'since-exp', 'until-exp') and F.n_temporal(q) >= 1)
    nontrivial = (operand_temporal or n < case['b'] + case['d']) and len(set(a)) > 1
    if len(a) != len(b) or any(x != y for x, y in zip(a, b)):
        return FAIL('law:%s:%s' % (law, kind), desc + '\nlhs: %s\nrhs: %s' % (fmt_vals(a), fmt_vals(b)), labels)
    return PASS(nontrivial, labels)


def candidates(case):
    tr = case['trace']
    n = len(next(iter(tr.values())))
    for key in ('p', 'q'):
        f = from_json(case[key])
        if f[0] == 'var':
            continue
        cands = list(formula_candidates(f)) + [('var', case['vars'][0])]
        seen = set()
        for f2 in cands:
            if f2 in seen or f2[0] == 'const':
                continue
            seen.add(f2)
            c = dict(case)
            c[key] = f2
            yield c
    for key in ('a', 'b', 'c', 'd'):
        if case[key] > 0:
            c = dict(case)
            c[key] = case[key] - 1
            if c['a'] <= c['b'] and c['c'] <= c['d']:
                yield c
    if n > 1:
        c = dict(case)
        c['trace'] = {v: xs[:-1] for v, xs in tr.items()}
        yield c
        c = dict(case)
        c['trace'] = {v: xs[1:] for v, xs in tr.items()}
        yield c
    for v, xs in tr.items():
        for i, x in enumerate(xs):
            if x != 0.0:
                c = dict(case)
                c['trace'] = dict(tr)
                c['trace'][v] = xs[:i] + [0.0] + xs[i + 1:]
                yield c


LANES = [
    Lane('dt_off', lambda tier: cases(tier, 'dt_off'), check, 4000, 60000, candidates),
    Lane('dt_on', lambda tier: cases(tier, 'dt_on'), check, 3000, 40000, candidates),
]
