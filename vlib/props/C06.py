"""C06 - interface-aware semantics differ from standard only at insensitive predicates."""
from hypothesis import strategies as st

from .. import formula as F
from ..common import std_candidates, feature_labels, fmt_vals
from ..dense import (DENSE, DENSE_PAST, ct_cases, case_q, to_time, norm_signals, dense_text, check_shape, compare_ct,
                     ct_candidates)
from ..formula import Profile, from_json, show
from ..monitors import run_dt_off, run_dt_on, run_ct_off, run_ct_on
from ..refsem import dt, ct_cells, Undefined, needs_tolerance, same
from ..runner import Lane, PASS, FAIL, DISCARD

PROPERTY = 'C06'

RULE = ('(formula, data, semantics in {standard, output_robustness, input_robustness, output_vacuity, input_vacuity}, input/output '
        'assignment of the variables, monitor kind in {discrete offline, discrete online, dense offline, dense online}); predicates over '
        'only inputs, only outputs, mixed and variable-free all occur. Oracle: the reference semantics with the predicate rule of the '
        'statement (insensitive predicate -> +inf/-inf by satisfaction with strict/non-strict comparison as written, resp. 0 under the '
        'vacuity semantics; every other predicate keeps its robustness); second relation: under STANDARD the result is identical for '
        'every io assignment (compared with the run without declarations and with the reference). Lane struct: the variables are (nested) fields of two objects of a user-defined type whose io type is declared on the object; equal to the specification over plain variables with those io types. Lane modular: a decomposition into sub-specifications (machinery of C09; in half of the cases an arithmetic term that is a sub-specification of its own and the left operand of two predicates) under an interface-aware semantics equals the inlined specification under the same semantics on the same monitor. Lane reparse: the io declarations of an object are changed and the text parsed again '
        '(variables declared through the API, or implicitly by the first parse()): the result is that of a fresh object with the new declarations. Non-trivial = a non-standard '
        'semantics with >= 1 insensitive and >= 1 sensitive predicate; distinct = distinct (formula, data, semantics, io, kind) digests.')

ASSUMPTIONS = [
    'a variable without io declaration is an output (declare_var default)',
    'a variable-free predicate mentions neither inputs nor outputs: insensitive under all four interface-aware semantics',
    'dense-time comparison on the grid as in C04; online kinds use the past fragment',
]

SEMS = ('standard', 'output_robustness', 'input_robustness', 'output_vacuity', 'input_vacuity')
DT_FULL = Profile(tbin=('since', 'until', 'unless'), max_depth=3, temporal_in_arith=False)
DT_PAST = Profile(un_temp=F.UN_PAST, bin_temp=F.BIN_PAST, tun=F.TUN_PAST, tbin=F.TBIN_PAST, max_depth=3, temporal_in_arith=False)
# vacuity gives 0 for insensitive predicates and +-inf under robustness: iff/xor/arithmetic over +-inf would be NaN
NOIFF = dict(bin_bool=('and', 'or', 'implies'), bare_operand=False)


@st.composite
def io_assign(draw, vs):
    io = {v: draw(st.sampled_from(['input', 'output', 'output', None])) for v in vs}
    if len(vs) >= 2 and draw(st.booleans()):
        # make sure both classes are present
        io[vs[0]] = 'input'
        io[vs[1]] = draw(st.sampled_from(['output', None]))
    return io


@st.composite
def mixed_predicate(draw, vs):
    """A predicate whose two sides are arithmetic over different variables (in_vars/out_vars must be propagated
    through every arithmetic node, from either operand)."""
    def term():
        a = ('var', draw(st.sampled_from(vs)))
        b = ('var', draw(st.sampled_from(vs)))
        k = draw(st.integers(0, 9))
        if k == 0:
            return a
        if k == 8:
            # the grammar is single-sorted: a Boolean or temporal formula over variables can be a term of a predicate
            return ('bin', draw(st.sampled_from(['xor', 'iff', 'and', 'or', 'implies'])), a, b)
        if k == 9:
            return ('un', draw(st.sampled_from(['not', 'once', 'historically'])), a)
        if k == 1:
            return ('bin', draw(st.sampled_from(['+', '-', '*'])), a, b)
        if k == 2:
            return ('bin', draw(st.sampled_from(['+', '-', '*'])), ('const', draw(st.sampled_from([1.0, 2.0, 0.5]))), b)
        if k == 3:
            return ('bin', draw(st.sampled_from(['+', '-', '*'])), a, ('const', draw(st.sampled_from([1.0, 2.0, 0.5]))))
        if k == 4:
            return ('un', draw(st.sampled_from(['abs', 'neg'])), ('bin', '-', a, b))
        if k == 5:
            return ('bin', '/', a, ('bin', '+', ('un', 'abs', b), ('const', 1.0)))
        if k == 6:
            return ('bin', 'pow', ('bin', '+', ('un', 'abs', a), ('const', 1.0)), ('const', 2.0))
        return ('const', draw(st.sampled_from([0.0, 1.0, 2.5])))
    return ('pred', draw(st.sampled_from(F.PREDS)), term(), term())


def graft(f, pred, path):
    """Replace the predicate reached by following `path` (as far as possible) by `pred`."""
    if f[0] == 'pred' or not F.children(f):
        return pred
    kids = list(F.children(f))
    i = (path[0] if path else 0) % len(kids)
    kids[i] = graft(kids[i], pred, path[1:])
    return F.rebuild(f, kids)


@st.composite
def dt_cases6(draw, tier, kind):
    p = (DT_FULL if kind == 'dt_off' else DT_PAST).copy(nvars=3, **NOIFF)
    if tier == 'thorough':
        p = p.copy(max_depth=4)
    f, vs = draw(F.formulas(p))
    if draw(st.booleans()):
        f = graft(f, draw(mixed_predicate(vs)), draw(st.lists(st.integers(0, 1), max_size=4)))
    n = draw(F.trace_lengths(8))
    tr = draw(F.traces(vs, n=n))
    if draw(st.integers(0, 3)) == 0:
        few = st.sampled_from([0.0, 1.0, 2.0, 3.0, -1.0])
        consts = [1.0, 2.0, 0.0]
        if draw(st.booleans()):
            # values that are nearly, but not exactly, equal (0.1 + 0.2 next to 0.3): equality is exact equality
            few = st.sampled_from([0.3, 0.1 + 0.2, 1.0, 1.0 + 2.0 ** -30, 2.0, 0.3, 1.0])
            consts = [0.3, 1.0, 2.0]
        tr = {v: [draw(few) for _ in range(n)] for v in vs}
        v = draw(st.sampled_from(vs))
        other = ('const', draw(st.sampled_from(consts))) if draw(st.integers(0, 2)) else ('var', draw(st.sampled_from(vs)))
        eq = ('pred', draw(st.sampled_from(['==', '!==', '==', '<=', '>'])), ('var', v), other)
        f = graft(f, eq, draw(st.lists(st.integers(0, 1), max_size=4)))
    return {'kind': kind, 'formula': f, 'vars': vs, 'trace': tr,
            'sem': draw(st.sampled_from(SEMS)), 'io': draw(io_assign(vs))}


@st.composite
def ct_cases6(draw, tier, kind):
    p = (DENSE if kind == 'ct_off' else DENSE_PAST).copy(nvars=3, temporal_in_arith=False, **NOIFF)
    c = draw(ct_cases(p, tier, max_samples=6))
    if draw(st.booleans()):
        c['formula'] = graft(from_json(c['formula']), draw(mixed_predicate(c['vars'])), draw(st.lists(st.integers(0, 1), max_size=4)))
    c['kind'] = kind
    c['sem'] = draw(st.sampled_from(SEMS))
    c['io'] = draw(io_assign(c['vars']))
    if draw(st.integers(0, 3)) == 0:
        # mode-like signals: very few distinct values, so that consecutive segments differ from a constant by the same
        # amount with opposite sign, and equality predicates
        few = st.sampled_from([0.0, 1.0, 2.0, 3.0, -1.0])
        consts = [1.0, 2.0, 0.0]
        if draw(st.booleans()):
            few = st.sampled_from([0.3, 0.1 + 0.2, 1.0, 1.0 + 2.0 ** -30, 2.0, 0.3, 1.0])
            consts = [0.3, 1.0, 2.0]
        c['signals'] = {v: [[k, draw(few)] for k, _ in s] for v, s in c['signals'].items()}
        v = draw(st.sampled_from(c['vars']))
        other = ('const', draw(st.sampled_from(consts))) if draw(st.integers(0, 2)) else ('var', draw(st.sampled_from(c['vars'])))
        eq = ('pred', draw(st.sampled_from(['==', '!==', '==', '<=', '>'])), ('var', v), other)
        c['formula'] = graft(from_json(c['formula']), eq, draw(st.lists(st.integers(0, 1), max_size=4)))
    return c


def io_clean(io):
    return {v: t for v, t in io.items() if t}


def pred_classes(f, sem, io):
    """(#insensitive, #sensitive) predicates under the semantics."""
    ins = sen = 0
    for s in F.subterms(f):
        if s[0] == 'pred':
            vs = F.fvars(s)
            if sem.startswith('output'):
                sens = any((io.get(v) or 'output') == 'output' for v in vs)
            else:
                sens = any(io.get(v) == 'input' for v in vs)
            if sens:
                sen += 1
            else:
                ins += 1
    return ins, sen


def check_dt(case):
    kind = case['kind']
    f = from_json(case['formula'])
    vs = list(case['vars'])
    sem = case['sem']
    io = {v: case['io'].get(v) for v in vs}
    tr = {v: [float(x) for x in case['trace'][v]] for v in vs}
    n = len(tr[vs[0]])
    labels = ['kind:' + kind, 'sem:' + sem] + feature_labels(f, n)
    used = F.fvars(f)
    if not used:
        return DISCARD('no-variable', labels)
    feed = [v for v in vs if v in used]
    w = {v: tr[v] for v in feed}
    ia = None if sem == 'standard' else (sem, {v: (io.get(v) or 'output') for v in feed})
    try:
        ref = dt(f, w, n, ia=ia)
    except Undefined:
        return DISCARD('undefined', labels)
    text = 'out = ' + show(f)
    run = run_dt_off if kind == 'dt_off' else run_dt_on
    o = run(text, feed, w, kind='dt', semantics=sem, io_types=io_clean({v: io[v] for v in feed}))
    desc = 'kind %s, semantics %s, io %s\nspec: %s\ntrace: %s' % (kind, sem, io, text, w)
    if o[0] != 'ok':
        return FAIL('exc:%s:%s@%s' % (kind, o[1], o[4].split(':')[-1]), desc + '\nraised %s: %s at %s' % (o[1], o[3], o[4]), labels)
    got = [p[1] for p in o[1]] if kind == 'dt_off' else o[1]
    tol = needs_tolerance(f)
    if len(got) != n or any(not same(a, b, tol) for a, b in zip(got, ref)):
        return FAIL('ia-mismatch:%s:%s' % (kind, sem), desc + '\nrtamt:     %s\nreference: %s' % (fmt_vals(got), fmt_vals(ref)), labels)
    if sem == 'standard':
        o2 = run(text, feed, w, kind='dt')
        got2 = ([p[1] for p in o2[1]] if kind == 'dt_off' else o2[1]) if o2[0] == 'ok' else None
        if got2 is None or any(not same(a, b, False) for a, b in zip(got, got2)):
            return FAIL('standard-depends-on-io:' + kind, desc + '\nwith io declarations: %s\nwithout: %s' % (fmt_vals(got), got2), labels)
        return PASS(any(io.values()) and F.n_temporal(f) >= 1, labels)
    ins, sen = pred_classes(f, sem, io)
    if ins:
        labels.append('has-insensitive')
    return PASS(ins >= 1 and sen >= 1, labels)


def check_ct(case):
    kind = case['kind']
    f = from_json(case['formula'])
    vs = list(case['vars'])
    sem = case['sem']
    io = {v: case['io'].get(v) for v in vs}
    q = case_q(case)
    sig = norm_signals(case)
    used = F.fvars(f)
    labels = ['kind:' + kind, 'sem:' + sem] + feature_labels(f)
    if not used:
        return DISCARD('no-variable', labels)
    sig = {v: sig[v] for v in vs if v in used}
    feed = list(sig)
    ia = None if sem == 'standard' else (sem, {v: (io.get(v) or 'output') for v in feed})
    try:
        K0, Kend, ref = ct_cells(f, sig, ia=ia)
    except Undefined:
        return DISCARD('undefined', labels)
    text = dense_text(f, q)
    kw = dict(kind='ct', semantics=sem, io_types=io_clean({v: io[v] for v in feed}))
    if kind == 'ct_off':
        o = run_ct_off(text, feed, to_time(sig, q), **kw)
        out = o[1] if o[0] == 'ok' else None
    else:
        o = run_ct_on(text, feed, [to_time(sig, q)], **kw)
        out = o[1][0] if o[0] == 'ok' else None
    desc = 'kind %s, semantics %s, io %s\nspec: %s\nsignals: %s' % (kind, sem, io, text, to_time(sig, q))
    if o[0] != 'ok':
        return FAIL('exc:%s:%s@%s' % (kind, o[1], o[4].split(':')[-1]), desc + '\nraised %s: %s at %s' % (o[1], o[3], o[4]), labels)
    msg = check_shape(out)
    if msg:
        return FAIL('shape:' + kind, desc + '\n' + msg, labels)
    if kind == 'ct_on':
        # the online monitor reports up to the instant it can decide: compare where it is defined
        if not out:
            return PASS(False, labels + ['empty-output'])
        kmax = int(out[-1][0] / float(q))
        Kend = min(Kend, kmax)
    elif not out:
        return FAIL('empty:' + kind, desc + '\nempty result', labels)
    bad = compare_ct(out, K0, Kend, ref, q, needs_tolerance(f))
    if bad:
        return FAIL('ia-mismatch:%s:%s' % (kind, sem), desc + '\nresult: %r\nat t=%g rtamt %r, reference %r\nreference cells: %s' % (
            out, bad[0], bad[1], bad[2], ref[:Kend - K0 + 1]), labels)
    if sem == 'standard':
        return PASS(any(io.values()) and F.n_temporal(f) >= 1, labels)
    ins, sen = pred_classes(f, sem, io)
    return PASS(ins >= 1 and sen >= 1, labels)


@st.composite
def reparse_cases(draw, tier):
    c = draw(dt_cases6(tier, 'dt_off'))
    c['sem'] = draw(st.sampled_from(SEMS[1:]))
    c['io2'] = draw(io_assign(c['vars']))
    c['online'] = draw(st.booleans())
    # the variables are not declared through the API: the first parse() declares them (float, output) and only then
    # can they be given an io type
    c['implicit'] = draw(st.sampled_from([False, False, True]))
    return c


def check_reparse(case):
    """The same specification object is parsed and evaluated, its io declarations are changed, and it is parsed and
    evaluated again: the second result must be the one a fresh object with the new declarations gives."""
    from ..monitors import build
    f = from_json(case['formula'])
    vs = [v for v in case['vars'] if v in F.fvars(f)]
    sem = case['sem']
    labels = ['kind:reparse', 'sem:' + sem] + feature_labels(f)
    if not vs:
        return DISCARD('no-variable', labels)
    if case['online'] and F.has_future(f):
        case = dict(case, online=False)
    tr = {v: [float(x) for x in case['trace'][v]] for v in vs}
    n = len(tr[vs[0]])
    io1 = {v: case['io'].get(v) for v in vs}
    io2 = {v: case['io2'].get(v) for v in vs}
    text = 'out = ' + show(f)

    def run(spec):
        if case['online']:
            return [spec.update(i, [(v, tr[v][i]) for v in vs]) for i in range(n)]
        return [p[1] for p in spec.evaluate({'time': [float(i) for i in range(n)], **{v: list(tr[v]) for v in vs}})]
    try:
        fresh = run(build('dt', text, vs, semantics=sem, io_types=io_clean(io2)))
        if case.get('implicit'):
            io1 = {v: None for v in vs}
            spec = build('dt', text, [], semantics=sem, declare=False)
        else:
            spec = build('dt', text, vs, semantics=sem, io_types=io_clean(io1))
        first = run(spec)
    except Exception as e:  # noqa
        return DISCARD('raises(C17):' + type(e).__name__, labels)
    try:
        for v in vs:
            spec.set_var_io_type(v, io2[v] or 'output')
        spec.parse()
        if case['online']:
            spec.reset()
        second = run(spec)
    except Exception as e:  # noqa
        return DISCARD('reparse-raises:' + type(e).__name__, labels)
    if any(not same(a, b, False) for a, b in zip(second, fresh)):
        return FAIL('reparse-stale-io:' + ('online' if case['online'] else 'offline'),
                    'semantics %s\nspec: %s\ntrace: %s\n%sio first %s, then %s and parse() again\nsecond result: %s\nfresh object:  %s' % (
                        sem, text, tr, 'variables declared by the first parse(), not through the API\n' if case.get('implicit') else '', io1, io2, fmt_vals(second), fmt_vals(fresh)), labels + (['implicit'] if case.get('implicit') else []))
    return PASS(io_clean(io1) != io_clean(io2) and first != fresh, labels)


# ---- modular specifications under the interface-aware semantics ----------------------

@st.composite
def modular_cases(draw, tier):
    """A decomposition into sub-specifications (machinery of C09) evaluated under an interface-aware semantics; in half of the
    cases an arithmetic term over some variables is a sub-specification of its own and the left operand of two predicates whose
    right operands are a constant and a variable of possibly the other interface class."""
    from ..modular import decomposed, profile_for
    kind = draw(st.sampled_from(['dt_off', 'dt_on', 'ct_off', 'ct_on']))
    base = profile_for(kind).copy(nvars=3, temporal_in_arith=False, max_depth=3, **NOIFF)
    c = draw(decomposed(kind, tier, profile=base))
    vs = c['vars']
    term = other = None
    if draw(st.booleans()):
        a = ('var', draw(st.sampled_from(vs)))
        b = ('var', draw(st.sampled_from(vs)))
        term = draw(st.sampled_from([('bin', '+', a, b), ('bin', '-', a, b), ('un', 'abs', a), ('bin', '*', a, ('const', 2.0)), ('bin', '-', a, ('const', 1.0))]))
        other = ('var', draw(st.sampled_from(vs)))
        cmp_ = st.sampled_from(['<=', '<', '>=', '>'])
        p1 = ('pred', draw(cmp_), term, ('const', draw(st.sampled_from([0.0, 1.0, 5.0]))))
        p2 = ('pred', draw(cmp_), term, other)
        if draw(st.booleans()):
            p1, p2 = p2, p1
        g = ('bin', draw(st.sampled_from(['and', 'or', 'implies'])), p1, p2)
        if draw(st.integers(0, 2)) == 0:
            g = ('un', draw(st.sampled_from(['once', 'historically'])), g)
        f = from_json(c['formula'])
        c['formula'] = g if draw(st.integers(0, 2)) == 0 else ('bin', draw(st.sampled_from(['and', 'or'])), g, f)
        subs = [from_json(x) for x in c['subs']]
        subs = [x for x in subs if x in set(F.subterms(c['formula']))]
        if term not in subs:
            subs.append(term)
        c['subs'] = sorted(subs, key=lambda x: (F.size(x), repr(x)))
        c['late_inline'] = None
        c['extra'] = None
    c['sem'] = draw(st.sampled_from(SEMS[1:] + SEMS))
    c['io'] = draw(io_assign(vs))
    if term is not None and draw(st.booleans()):
        # the variables of the shared term in one interface class, the variable compared with it in the other
        tv = F.fvars(term)
        if other[1] not in tv:
            k1, k2 = draw(st.sampled_from([('input', 'output'), ('output', 'input')]))
            for v in tv:
                c['io'][v] = k1
            c['io'][other[1]] = k2
    return c


def check_modular(case):
    from ..modular import build_modular, feed
    from . import C09
    kind = case['kind']
    f = from_json(case['formula'])
    sem = case['sem']
    labels = ['modular', 'kind:' + kind, 'sem:' + sem, 'subs:%d' % len(case['subs'])] + feature_labels(f)
    if not F.fvars(f):
        return DISCARD('no-variable', labels)
    try:
        inl = feed(case, build_modular(case, inline=True))
    except Exception as e:  # noqa
        return DISCARD('inlined-raises(C17):' + type(e).__name__, labels)
    desc = 'semantics %s, io %s\n%s' % (sem, case['io'], C09.describe(case))
    try:
        mod = feed(case, build_modular(case, inline=False))
    except Exception as e:  # noqa
        from ..monitors import exc_outcome
        o = exc_outcome(e)
        return FAIL('ia-modular-raises:%s:%s' % (kind, o[1]), desc + '\nmodular specification raised %s: %s at %s' % (o[1], o[3], o[4]), labels)
    msg = C09.compare(kind, mod, inl, f)
    if msg == 'NAN':
        return DISCARD('nan', labels)
    if msg:
        return FAIL('ia-modular-differs:%s:%s' % (kind, 'standard' if sem == 'standard' else 'ia'), desc + '\n' + msg, labels)
    io = {v: case['io'].get(v) for v in case['vars']}
    ins, sen = pred_classes(f, sem, io) if sem != 'standard' else (0, 0)
    return PASS(bool(case['subs']) and ins >= 1 and sen >= 1, labels)


def cand_modular(case):
    from ..modular import mod_candidates
    for c in mod_candidates(case):
        yield c


# ---- object-valued variables: the io declaration belongs to the object, the predicates mention its fields -------------

@st.composite
def struct_cases6(draw, tier):
    from ..structs import PATHS
    kind = draw(st.sampled_from(['dt_off', 'dt_on', 'ct_off', 'ct_on']))
    c = draw(dt_cases6(tier, kind)) if kind.startswith('dt') else draw(ct_cases6(tier, kind))
    slots = [(o, p) for o in ('m', 'n') for p in PATHS]
    picks = draw(st.permutations(slots))
    c['paths'] = {v: list(picks[i]) for i, v in enumerate(c['vars'])}
    c['objio'] = {'m': draw(st.sampled_from(['input', 'output', None])), 'n': draw(st.sampled_from(['input', 'output', None]))}
    if 'signals' in c:
        from ..dense import grid_signal
        ks = [k for k, _ in draw(grid_signal(0, max_samples=6))]
        c['signals'] = {v: [[k, draw(F.values())] for k in ks] for v in c['vars']}
    return c


def check_struct6(case):
    """Under every semantics the specification over fields of declared-input / declared-output objects equals the same
    specification over plain variables with the io type of their object."""
    from .C17 import run_struct, data_of
    kind = case['kind']
    f = from_json(case['formula'])
    vs = [v for v in case['vars'] if v in F.fvars(f)]
    sem = case['sem']
    labels = ['struct', 'kind:' + kind, 'sem:' + sem] + feature_labels(f)
    if not vs:
        return DISCARD('no-variable', labels)
    data = data_of(case)
    plain = run_struct(kind, f, vs, data, case['paths'], False, sem=sem, objio=case['objio'])
    if plain[0] != 'ok':
        return DISCARD('plain-raises(other lanes):' + plain[1], labels)
    st_ = run_struct(kind, f, vs, data, case['paths'], True, sem=sem, objio=case['objio'])
    desc = 'monitor %s, semantics %s, io of the objects %s\nspec over plain variables: %s\nfield paths: %s\ndata: %s' % (
        kind, sem, case['objio'], show(f), {v: '.'.join(case['paths'][v]) for v in vs}, {v: data[v] for v in vs})
    if st_[0] != 'ok':
        return FAIL('struct-raises:%s:%s' % (kind, st_[1]), desc + '\nwith the variables as fields of objects: raised %s: %s at %s' % (st_[1], st_[3], st_[4]), labels)
    if repr(st_[1]) != repr(plain[1]):
        return FAIL('ia-struct-differs:%s:%s' % (kind, 'standard' if sem == 'standard' else 'ia'), desc + '\nfields of objects: %r\nplain variables:   %r' % (st_[1], plain[1]), labels)
    io = {v: case['objio'].get(case['paths'][v][0]) for v in vs}
    ins, sen = pred_classes(f, sem, io) if sem != 'standard' else (0, 0)
    return PASS(ins >= 1 and sen >= 1, labels)


LANES = [
    Lane('struct', struct_cases6, check_struct6, 1500, 15000, None),
    Lane('modular', modular_cases, check_modular, 2000, 20000, cand_modular),
    Lane('reparse', lambda tier: reparse_cases(tier), check_reparse, 1000, 15000, std_candidates),
    Lane('dt_off', lambda tier: dt_cases6(tier, 'dt_off'), check_dt, 2500, 40000, std_candidates),
    Lane('dt_on', lambda tier: dt_cases6(tier, 'dt_on'), check_dt, 1500, 20000, std_candidates),
    Lane('ct_off', lambda tier: ct_cases6(tier, 'ct_off'), check_ct, 2000, 30000, ct_candidates),
    Lane('ct_on', lambda tier: ct_cases6(tier, 'ct_on'), check_ct, 1500, 20000, ct_candidates),
]
