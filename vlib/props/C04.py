"""C04 - dense-time offline robustness equals the dense-time STL semantics."""
from fractions import Fraction

from hypothesis import strategies as st

from .. import formula as F
from ..common import feature_labels
from ..dense import (DENSE, ct_cases, case_q, to_time, norm_signals, dense_text, check_shape, compare_ct,
                     ct_candidates, unaligned)
from ..formula import from_json
from ..monitors import run_ct_off
from ..refsem import ct_cells, Undefined, needs_tolerance, same, step_at
from ..runner import Lane, PASS, FAIL, DISCARD

PROPERTY = 'C04'

RULE = ('Typed grammar restricted to the dense-time operators (arithmetic, comparisons, Boolean, once/historically/eventually/always/'
        'since/until bounded and unbounded) x piecewise-constant signals on a rational grid (quantum 1/4; thorough also 1/8, 1/2), '
        'break-points of different variables drawn independently (unaligned), 1-8 samples per variable; lanes main (t0=0), shifted '
        '(t0>0, no variable-free predicate), long (bounds up to 24 cells, longer than the signals), arith, staircase (5-12 samples in long monotone runs under windows up to 16 cells), big (8-20 samples, three variables) and units (bounds with explicit units / the case restated in another default unit, machinery of C08) surplus (the call carries a further signal that the specification does not read, declared or not, starting later than the others) and bigint_time (untimed formulas on signals whose time stamps are Python integers of the order of 1.7e18, a few units apart; instants compared as integers) and bigint (integer samples of the order of 1.7e18 whose small differences are compared with constants, read at the sampling instants against a reference in exact integer arithmetic) and reevaluate (one specification object evaluated repeatedly on the same sample list objects, edited in place by the caller between the calls). Oracle: grid reference R-ct; '
        'the returned sample list must have non-decreasing finite time stamps, start at t0 and, read as a right-continuous step '
        'function, equal R-ct at every cell start, cell midpoint and output time stamp of [t0, earliest last sample]. '
        'Non-trivial = >=1 temporal operator and (>=2 variables with unaligned break-points or a bounded operator); '
        'distinct = distinct (formula, signals, quantum) digests.')

ASSUMPTIONS = [
    'dense since/until are non-strict as the suite pins (phi required on the closed interval between t and the witness)',
    'finitary interpretation: every input signal holds its last value; comparison stops at the earliest last sample of the used variables',
    'all variables of a case start at the same instant; with t0 > 0 no predicate is variable-free (domain of a constant would be a guess)',
    'all time stamps and bounds are multiples of the quantum (exact binary floats); merging of equal consecutive samples is not constrained',
]


def _profile(tier, **kw):
    p = DENSE.copy(**kw)
    if tier == 'thorough':
        p.max_depth = max(p.max_depth, 5)
    return p


def no_const_pred(f):
    for s in F.subterms(f):
        if s[0] == 'pred' and not F.fvars(s):
            return False
        if s[0] == 'const':
            pass
    return True


def has_var_free_operand(f):
    """A variable-free term anywhere (its dense signal starts at 0, not at t0)."""
    return any((s[0] != 'const' and not F.fvars(s)) for s in F.subterms(f) if s[0] not in ('var',)) or \
        any(s[0] == 'const' for s in F.subterms(f))


KNOWN_EARLY_START = 'start-before-domain:bounded-operator-with-t0>0'
KNOWN_EARLY_START_VALUES = 'values-before-domain-read:past-operator-over-bounded-operator-with-t0>0'


def past_over_bounded_future(f):
    for s in F.subterms(f):
        past = (s[0] == 'un' and s[1] in ('once', 'historically')) or (s[0] == 'bin' and s[1] == 'since') or \
            (s[0] == 'tun' and s[1] in ('once', 'historically')) or (s[0] == 'tbin' and s[1] == 'since')
        # (a bounded past operator below it reports -inf / +inf from time 0 on, a bounded future operator values from t0 - b on)
        if past and any(x[0] in ('tun', 'tbin') for c in F.children(s) for x in F.subterms(c)):
            return True
    return False


def _shifted_to_zero_passes(case):
    k0 = min(s[0][0] for s in case['signals'].values())
    c = dict(case)
    c['signals'] = {v: [[k - k0, x] for k, x in s] for v, s in case['signals'].items()}
    try:
        return check(c).status == 'pass'
    except Exception:  # noqa
        return False


def check_shifted_bounded(case):
    """Signals that start at t0 > 0 under bounded operators: the values on the domain are compared as everywhere; a result
    that begins before t0 is the open finding KNOWN_EARLY_START (the suite pins it: test_once_bounded_3)."""
    return check(case, early_start_is_known=True)


def check(case, early_start_is_known=False):
    f = from_json(case['formula'])
    vs = list(case['vars'])
    q = case_q(case)
    sig = norm_signals(case)
    used = F.fvars(f)
    labels = feature_labels(f) + ['q:%s' % q]
    if not used:
        return DISCARD('no-variable', labels)
    sig = {v: sig[v] for v in vs if v in used}
    feed = list(sig.keys())
    K0 = sig[feed[0]][0][0]
    if K0 > 0:
        labels.append('shifted')
        # constants are defined from time 0: only allowed as direct operands of arithmetic/predicates with a variable
        for s in F.subterms(f):
            if s[0] in ('pred', 'bin', 'un', 'tun', 'tbin') and not F.fvars(s):
                return DISCARD('variable-free-subformula-with-t0>0', labels)
            arith = (s[0] == 'pred') or (s[0] == 'bin' and s[1] in F.BIN_ARITH) or (s[0] == 'un' and s[1] in F.UN_ARITH)
            if not arith and any(c[0] == 'const' for c in F.children(s)):
                # a bare constant as the operand of a Boolean / temporal operator is a signal of its own (defined from 0)
                return DISCARD('variable-free-subformula-with-t0>0', labels)
    try:
        K0, Kend, ref = ct_cells(f, sig)
    except Undefined:
        return DISCARD('undefined', labels)
    text = dense_text(f, q)
    sigs_t = to_time(sig, q)
    declared = list(feed)
    sur = case.get('surplus')
    if sur:
        # a further signal in the call that the specification does not read (declared or not); it may start later and end
        # earlier than the others - the domain of the result is that of the signals the specification reads
        sigs_t = dict(sigs_t)
        sigs_t[sur['name']] = [[float(Fraction(int(k)) * q), float(x)] for k, x in sur['signal']]
        if sur['declared']:
            declared.append(sur['name'])
        labels.append('surplus-signal')
    o = run_ct_off(text, declared, sigs_t)
    desc = 'spec: %s\nsignals: %s' % (text, sigs_t)
    if o[0] != 'ok':
        return FAIL('exc:%s@%s' % (o[1], o[4]), desc + '\nraised %s: %s at %s' % (o[1], o[3], o[4]), labels)
    out = o[1]
    msg = check_shape(out)
    if msg:
        return FAIL('shape', desc + '\n' + msg + '\nresult: %r' % (out,), labels)
    t0 = float(K0 * q)
    early = False
    if not out or out[0][0] != t0:
        if early_start_is_known and out and out[0][0] < t0 and any(s[0] in ('tun', 'tbin') for s in F.subterms(f)):
            early = True          # reported below, after the values on the domain have been compared
        else:
            return FAIL('start:' + attribute(f, sig, q), desc + '\nresult does not start at the beginning of the domain (%g): %r' % (t0, out[:3]), labels)
    bad = compare_ct(out, K0, Kend, ref, q, needs_tolerance(f))
    if bad and early_start_is_known and K0 > 0 and past_over_bounded_future(f) and _shifted_to_zero_passes(case):
        # second face of the open finding: a bounded future operator delivers values for times before t0 (computed from
        # the data after t0), and a past operator above it reads them where the semantics sees the start of the domain
        return FAIL(KNOWN_EARLY_START_VALUES, desc + '\nresult: %r\nat t=%g rtamt gives %r, reference %r: the past operator reads values that the bounded '
                    'operator below it reports for times before the signals start (the same case with all time stamps moved to start at 0 agrees with the reference)' % (
                        out, bad[0], bad[1], bad[2]), labels + ['early-start'])
    if bad:
        return FAIL('mismatch:' + attribute(f, sig, q), desc + '\nresult: %r\nat t=%g rtamt gives %r, reference %r\nreference cells from %d: %s' % (
            out, bad[0], bad[1], bad[2], K0, ref[:Kend - K0 + 1]), labels)
    bounded = any(s[0] in ('tun', 'tbin') for s in F.subterms(f))
    nontrivial = F.n_temporal(f) >= 1 and ((len(sig) >= 2 and unaligned(sig)) or bounded)
    if unaligned(sig):
        labels.append('unaligned')
    if early:
        return FAIL(KNOWN_EARLY_START, desc + '\nthe values on the domain [%g, %g] agree with the reference, but the result starts at %g, before the beginning of the common input domain (%g): %r' % (
            t0, float(Kend * q), out[0][0], t0, out[:3]), labels + ['early-start'], nontrivial=nontrivial)
    return PASS(nontrivial, labels)


def attribute(f, sig, q):
    for s in sorted(set(F.subterms(f)), key=F.size):
        if s[0] in ('var', 'const'):
            continue
        used = F.fvars(s)
        if not used:
            continue
        ssig = {v: sig[v] for v in used}
        try:
            K0, Kend, ref = ct_cells(s, ssig)
        except Undefined:
            continue
        o = run_ct_off(dense_text(s, q), list(ssig), to_time(ssig, q))
        if o[0] != 'ok':
            return 'exc-in:' + F.op_of(s)
        if check_shape(o[1]) or not o[1] or o[1][0][0] != float(K0 * q) or \
                compare_ct(o[1], K0, Kend, ref, q, needs_tolerance(s)):
            return F.op_of(s)
    return 'nested'


@st.composite
def reevaluate_cases(draw, tier):
    """One specification object evaluated several times on the caller's own sample lists, which are edited in place between
    the calls (a value of an interior, first or last sample changes; the list objects stay the same)."""
    c = draw(ct_cases(_profile(tier, max_depth=3), tier, max_samples=6, min_samples=2))
    edits = []
    for _ in range(draw(st.integers(1, 3))):
        v = draw(st.sampled_from(c['vars']))
        i = draw(st.integers(0, len(c['signals'][v]) - 1))
        edits.append([v, i, draw(F.values())])
    c['edits'] = edits
    # the variables are fields of objects of a user-defined type (one object variable per signal): the caller edits the field
    # of a sample object, or puts a new object into the sample, in place
    c['struct'] = draw(st.sampled_from([None, None, 'value', 'pos.x']))
    return c


def check_reevaluate(case):
    f = from_json(case['formula'])
    q = case_q(case)
    sig = norm_signals(case)
    used = F.fvars(f)
    labels = feature_labels(f) + ['reevaluate']
    if not used:
        return DISCARD('no-variable', labels)
    sig = {v: [list(s) for s in sig[v]] for v in case['vars'] if v in used}
    feed = list(sig)
    text = dense_text(f, q)
    from ..monitors import build, exc_outcome
    field = case.get('struct')
    sig_t = to_time(sig, q)                     # the caller's lists: kept and edited in place
    try:
        if field:
            from ..structs import Msg
            labels.append('object-valued-variables')

            def rn(g):
                if g[0] == 'var':
                    return ('var', 'o_%s.%s' % (g[1].replace('$', 'd'), field))
                return tuple(rn(x) if isinstance(x, tuple) else x for x in g)

            def mk(x):
                return Msg(value=x) if field == 'value' else Msg(a=x)
            text = dense_text(rn(f), q)
            spec = build('ct_off', text, [], parse=False)
            spec.import_module('vlib.structs', 'Msg')
            for v in feed:
                spec.declare_var('o_' + v.replace('$', 'd'), 'Msg')
            spec.parse()
            obj_sig = {v: [[t, mk(x)] for t, x in sig_t[v]] for v in feed}
            args = [['o_' + v.replace('$', 'd'), obj_sig[v]] for v in feed]
        else:
            spec = build('ct_off', text, feed)
            args = [[v, sig_t[v]] for v in feed]
    except Exception as e:  # noqa
        return DISCARD('build-raises(C14/C17):' + type(e).__name__, labels)
    hist = []
    changed = 0
    for step in range(len(case['edits']) + 1):
        if step > 0:
            v, i, x = case['edits'][step - 1]
            if v not in sig or i >= len(sig[v]):
                continue
            if sig[v][i][1] != float(x):
                changed += 1
            sig[v][i][1] = float(x)
            sig_t[v][i][1] = float(x)
            if field:
                if step % 2:
                    obj_sig[v][i][1] = mk(float(x))            # a new object in the old sample
                elif field == 'value':
                    obj_sig[v][i][1].value = float(x)          # the field of the old object
                else:
                    obj_sig[v][i][1].pos.x = float(x)
        try:
            K0, Kend, ref = ct_cells(f, {v: [tuple(s) for s in sig[v]] for v in feed})
        except Undefined:
            return DISCARD('undefined', labels)
        try:
            out = spec.evaluate(*args)
        except Exception as e:  # noqa
            o = exc_outcome(e)
            if step == 0:
                return DISCARD('first-evaluation-raises(main lanes)', labels)
            return FAIL('reevaluate-raises:%s' % o[1], 'spec: %s\nevaluations so far: %s\nevaluation %d on %s raised %s: %s at %s' % (
                text, hist, step, sig_t, o[1], o[3], o[4]), labels)
        hist.append({v: [list(s) for s in sig_t[v]] for v in feed})
        bad = check_shape(out) or (not out) or compare_ct(out, K0, Kend, ref, q, needs_tolerance(f))
        if bad:
            if step == 0:
                return DISCARD('first-evaluation-differs(main lanes)', labels)
            return FAIL('reevaluate-differs', 'spec: %s\nsignals of the evaluations (same list objects, edited in place): %s\nevaluation %d returned %r\n%r\nreference cells from %d: %s' % (
                text, hist, step, out, bad, K0, ref[:Kend - K0 + 1]), labels)
    return PASS(changed >= 1 and F.n_temporal(f) >= 1, labels)


def cand_reevaluate(case):
    if len(case['edits']) > 1:
        for i in range(len(case['edits'])):
            yield dict(case, edits=case['edits'][:i] + case['edits'][i + 1:])
    for c in ct_candidates(case):
        c = dict(c)
        c['edits'] = [e for e in case['edits'] if e[0] in c['signals'] and e[1] < len(c['signals'][e[0]])]
        if c['edits']:
            yield c


@st.composite
def surplus_cases(draw, tier):
    c = draw(ct_cases(_profile(tier, max_depth=3), tier))
    from ..dense import grid_signal
    k0 = draw(st.sampled_from([0, 1, 3, 7, 20, 40]))
    c['surplus'] = {'name': 'extra_v', 'declared': draw(st.booleans()), 'signal': draw(grid_signal(k0, max_samples=3))}
    return c


def _units_lane(tier):
    from . import C08
    return C08.dense_cases(tier)


def check_units(case):
    """bounds written with explicit units / the case restated in another default unit (machinery of C08)"""
    from . import C08
    return C08.check_dense(case)


@st.composite
def staircase_cases(draw, tier):
    """Long monotone runs (staircases) under wide windows: the sliding-window deletion loops need several pops in a row."""
    prof = _profile(tier, max_bound=16, nvars=1, max_depth=3)
    f, vs = draw(F.formulas(prof))
    q = draw(st.sampled_from([Fraction(1, 4)]))
    sig = {}
    for v in vs:
        n = draw(st.integers(5, 12))
        vals = sorted(draw(st.lists(st.integers(-16, 16), min_size=n, max_size=n, unique=True)), reverse=draw(st.booleans()))
        # a few local perturbations: mostly monotone with one or two breaks
        for _ in range(draw(st.integers(0, 2))):
            i = draw(st.integers(0, n - 1))
            vals[i] = draw(st.integers(-16, 16))
        k = 0
        s = []
        for x in vals:
            s.append([k, x / 2.0])
            k += draw(st.sampled_from([1, 1, 1, 2]))
        sig[v] = s
    return {'formula': f, 'vars': vs, 'signals': sig, 'q': [q.numerator, q.denominator]}


def big_cases(tier):
    """Few but large cases: up to 20 samples per variable, three variables, windows up to 16 cells."""
    return ct_cases(_profile(tier, max_depth=3, max_bound=16, nvars=3), tier, max_samples=20, min_samples=8)


def check_bigint(case):
    """Integer samples beyond 2**53 (machinery of the C19 lane): dense offline at every sampling instant against the reference
    in exact integer arithmetic."""
    from . import C19
    return C19.check_bigint(case, prop='C04')


@st.composite
def bigint_time_cases(draw, tier):
    """Untimed dense-time formulas on signals whose time stamps are Python integers of the order of 1.7e18 (nanoseconds since the
    epoch, default unit ns): neighbouring stamps are a few units apart, far below the spacing of doubles there (256)."""
    f, vs = draw(F.formulas(_profile(tier, tun=(), tbin=(), max_depth=3)))
    t0 = draw(st.sampled_from([1700000000000000000, 2 ** 53 + 1, 2 ** 62 + 12345, 1700000000123456789]))
    sig = {}
    for v in vs:
        n = draw(st.sampled_from([2, 3, 4, 5, 6, 8]))
        k, xs = t0, []
        for _ in range(n):
            xs.append([k, draw(F.values())])
            k += draw(st.sampled_from([1, 2, 3, 5, 7]))
        sig[v] = xs
    return {'formula': f, 'vars': vs, 'signals': sig}


def check_bigint_time(case):
    """Integer time stamps beyond 2**53: the result, read as a step function at every integer instant of the domain, equals the
    grid reference (cells of one time unit); instants are compared as Python integers, never through float()."""
    f = from_json(case['formula'])
    used = F.fvars(f)
    labels = feature_labels(f) + ['integer-time-stamps>2^53']
    if not used:
        return DISCARD('no-variable', labels)
    sig = {v: [(int(k), float(x)) for k, x in case['signals'][v]] for v in case['vars'] if v in used}
    for x in F.subterms(f):
        arith = (x[0] == 'pred') or (x[0] == 'bin' and x[1] in F.BIN_ARITH) or (x[0] == 'un' and x[1] in F.UN_ARITH)
        if (x[0] in ('pred', 'bin', 'un') and not F.fvars(x)) or (not arith and any(c[0] == 'const' for c in F.children(x))):
            return DISCARD('variable-free-subformula-with-t0>0', labels)
    try:
        K0, Kend, ref = ct_cells(f, sig)
    except Undefined:
        return DISCARD('undefined', labels)
    text = 'out = ' + F.show(f)
    sig_t = {v: [[k, x] for k, x in s] for v, s in sig.items()}
    o = run_ct_off(text, list(sig), sig_t, unit='ns')
    desc = 'spec: %s (default unit ns)\nsignals (integer time stamps): %s' % (text, sig_t)
    if o[0] != 'ok':
        return FAIL('exc:%s@%s' % (o[1], o[4]), desc + '\nraised %s: %s at %s' % (o[1], o[3], o[4]), labels)
    out = o[1]
    msg = check_shape(out)
    if msg:
        return FAIL('shape', desc + '\n' + msg + '\nresult: %r' % (out,), labels)
    if not out or out[0][0] != K0:
        return FAIL('start:integer-time-stamps', desc + '\nresult does not start at the beginning of the domain (%d): %r' % (K0, out[:3]), labels)
    tol = needs_tolerance(f)
    for k in range(K0, Kend + 1):
        got = step_at(out, k)
        if got is None or not same(got, ref[k - K0], tol):
            return FAIL('mismatch:integer-time-stamps', desc + '\nresult: %r\nat t = t0 + %d rtamt gives %r, reference %r' % (out, k - K0, got, ref[k - K0]), labels)
    return PASS(F.n_temporal(f) >= 1 or len(sig) >= 2, labels)


LANES = [
    Lane('bigint_time', bigint_time_cases, check_bigint_time, 600, 6000, None),
    Lane('bigint', lambda tier: __import__('vlib.common', fromlist=['bigint_cases']).bigint_cases(dense=True), check_bigint, 500, 5000, None),
    Lane('big', big_cases, check, 300, 5000, ct_candidates),
    Lane('staircase', lambda tier: staircase_cases(tier), check, 1500, 20000, ct_candidates),
    Lane('units', _units_lane, check_units, 800, 10000, None),
    Lane('reevaluate', lambda tier: reevaluate_cases(tier), check_reevaluate, 800, 10000, cand_reevaluate),
    Lane('main', lambda tier: ct_cases(_profile(tier), tier), check, 3000, 50000, ct_candidates),
    # t0 > 0: unbounded operators only.  The suite pins bounded operators on a signal that starts after 0 to a result that
    # starts at 0 (test_once_bounded_3), the property text says "starts at the beginning of the common input domain":
    # the two readings disagree, so that class is avoided rather than guessed (DESIGN.md, Corrections).
    Lane('shifted', lambda tier: ct_cases(_profile(tier, tun=(), tbin=()), tier, shifted=True), check, 1000, 15000, ct_candidates),
    # t0 > 0 under bounded operators: values on the domain are checked; the early start is the open finding of KNOWN_FINDINGS.txt
    Lane('shifted_bounded', lambda tier: ct_cases(_profile(tier, max_depth=3), tier, shifted=True), check_shifted_bounded, 1000, 15000, ct_candidates),
    Lane('surplus', lambda tier: surplus_cases(tier), check, 800, 8000, ct_candidates),
    Lane('long', lambda tier: ct_cases(_profile(tier, max_bound=24), tier, max_samples=4), check, 1000, 15000, ct_candidates),
    Lane('arith', lambda tier: ct_cases(_profile(tier, un_temp=(), bin_temp=(), tun=(), tbin=(), nvars=3, max_depth=4), tier), check, 800, 10000, ct_candidates),
]
