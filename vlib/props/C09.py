"""C09 - modular specifications are equivalent to their inlined form."""
from fractions import Fraction

from .. import formula as F
from ..common import feature_labels
from ..formula import from_json
from ..modular import KINDS, Q, decomposed, build_modular, feed, modular_texts, printer_for, mod_candidates
from ..monitors import exc_outcome
from ..refsem import step_at, same, needs_tolerance
from ..runner import Lane, PASS, FAIL, DISCARD

PROPERTY = 'C09'

RULE = ('A generated formula and a generated decomposition: a set of its sub-terms hoisted into named sub-specifications (dependency '
        'order, nested, every textual re-occurrence replaced by the name; sub-formula reuse is raised so multiple references are common), '
        'some literals hoisted into declare_const; delivered through add_sub_spec or as several assertions in one text, names declared or '
        'not, each requirement text optionally laid out with line comments after / before it, block comments and line breaks, optionally one sub-specification written out inside the others and defined last, optionally a further requirement that nothing refers to (after pastify with a longer look-ahead), the main text optionally written to a file and loaded with get_spec_from_file(); five monitor set-ups (discrete offline, online, online after pastify; dense offline, online in 1-3 chunks). One requirement in six is named time / results / value / rob / dataset. Lane redefined: a = s1; b = t(a); a = s2; out = m(a, b) through add_sub_spec or in one text against m(s2, t(s1)) written out (a reference means the definition in force at that point). Lane bigint_const: every literal hoisted into a constant that declare_const() receives as Python int, Python float or text, integer samples of the order of 1.7e18, discrete time offline and online, compared exactly. Oracle '
        '(differential): outputs of the modular specification == outputs of the inlined specification on the same monitor and data. '
        'Non-trivial = >= 1 sub-specification that contains a stateful/temporal operator or is referenced >= 2 times; distinct = distinct '
        '(modular text, data, kind) digests.')

ASSUMPTIONS = [
    'dense results are compared as step functions (cell starts and midpoints of the covered domain) when the sample lists differ',
    'a case in which the inlined specification raises is discarded (C17); a modular specification that raises where the inlined one evaluates is a difference',
]


def flatten(outs):
    res = []
    for o in outs:
        res.extend(o)
    return res


def compare(kind, a, b, f):
    """None if equal, else a message."""
    if kind.startswith('dt'):
        if kind == 'dt_off':
            va, vb = [p[1] for p in a[0]], [p[1] for p in b[0]]
        else:
            va, vb = a, b
        if len(va) == len(vb) and any(isinstance(x, float) and x != x and isinstance(y, float) and y != y for x, y in zip(va, vb)):
            return 'NAN'          # inf - inf on both sides (warm-up of a pastified monitor): an undefined case, discarded by the caller
        if len(va) != len(vb) or any(not same(x, y, False) for x, y in zip(va, vb)):
            return 'modular: %r\ninlined: %r' % (va, vb)
        return None
    fa, fb = flatten(a), flatten(b)
    if fa == fb:
        return None
    if not fa or not fb:
        return 'modular: %r\ninlined: %r' % (fa, fb)
    lo = max(fa[0][0], fb[0][0])
    hi = min(fa[-1][0], fb[-1][0])
    if fa[0][0] != fb[0][0] or fa[-1][0] != fb[-1][0]:
        return 'covered domains differ\nmodular: %r\ninlined: %r' % (fa, fb)
    k = 0
    while float(Fraction(k, 2) * Q) <= hi:
        t = float(Fraction(k, 2) * Q)
        if t >= lo:
            x, y = step_at(fa, t), step_at(fb, t)
            if x is None or y is None or not same(x, y, False):
                return 'at t=%g modular %r, inlined %r\nmodular: %r\ninlined: %r' % (t, x, y, fa, fb)
        k += 1
    return None


def describe(case):
    from ..modular import bound_const_decl
    bodies, main, consts = modular_texts(case, printer_for(case['kind'], case.get('bound_const')))
    consts = list(consts) + bound_const_decl(case)
    from ..modular import decorate
    bodies = [(n, decorate(case, i, '%s = %s' % (n, t))) for i, (n, t) in enumerate(bodies)]
    return 'kind %s, delivery %s%s, names declared: %s\nsub-specs (texts as written): %s\nconstants: %s\nmain: out = %s\ninlined: out = %s\ndata: %s' % (
        case['kind'], case['delivery'], ' (main text written to a file and loaded with get_spec_from_file)' if case.get('via_file') else '', case['declare_names'], bodies, consts, main, printer_for(case['kind'])(from_json(case['formula'])),
        case.get('trace') or case.get('signals'))


def check(case):
    kind = case['kind']
    f = from_json(case['formula'])
    labels = ['kind:' + kind, 'subs:%d' % len(case['subs']), 'delivery:' + case['delivery']] + feature_labels(f)
    if not F.fvars(f):
        return DISCARD('no-variable', labels)
    if kind == 'dt_on_past' and F.horizon(f) is None:
        return DISCARD('unbounded', labels)
    try:
        inl = feed(case, build_modular(case, inline=True))
    except Exception as e:  # noqa
        return DISCARD('inlined-raises(C17):' + type(e).__name__, labels)
    try:
        mod = feed(case, build_modular(case, inline=False))
    except Exception as e:  # noqa
        o = exc_outcome(e)
        return FAIL('modular-raises:%s:%s@%s' % (kind, o[1], o[4].split(':')[-1]), describe(case) + '\nmodular specification raised %s: %s at %s' % (o[1], o[3], o[4]), labels)
    msg = compare(kind, mod, inl, f)
    subs = [from_json(s) for s in case['subs']]
    allsub = list(F.subterms(f))
    multi = any(allsub.count(s) >= 2 for s in subs)
    stateful = any(F.n_temporal(s) >= 1 for s in subs)
    if multi:
        labels.append('referenced-twice')
    if msg == 'NAN':
        return DISCARD('nan', labels)
    if msg:
        return FAIL('modular-differs:' + kind, describe(case) + '\n' + msg, labels)
    return PASS(bool(subs) and (multi or stateful), labels)


LANES = [Lane(k, (lambda kk: lambda tier: decomposed(kk, tier))(k), check, 3000, 30000, mod_candidates) for k in KINDS]


# ---- constants handed over as Python numbers, integer samples beyond 2**53 ----------------------------------------

def bigint_const_cases(tier):
    from hypothesis import strategies as st
    from ..common import bigint_cases

    @st.composite
    def mk(draw):
        kind = draw(st.sampled_from(['dt_off', 'dt_on']))
        c = draw(bigint_cases(past_only=(kind == 'dt_on')))
        c['kind'] = kind
        # how declare_const() receives the value: a Python int, a Python float or the text
        c['const_as'] = draw(st.sampled_from(['int', 'int', 'float', 'text']))
        return c
    return mk()


def check_bigint_const(case):
    """Every literal of the formula is hoisted into a declared constant whose value is handed to declare_const() as a Python
    int / float / text; the samples are Python integers of the order of 1.7e18. Modular == inlined, exactly."""
    from ..modular import replace
    from ..monitors import run_dt_off, run_dt_on
    f = from_json(case['formula'])
    vs = list(case['vars'])
    kind = case['kind']
    tr = {v: [int(x) for x in case['trace'][v]] for v in vs}
    labels = ['kind:' + kind, 'integer-samples>2^53', 'constant-given-as:' + case['const_as']]
    lits = sorted(set(s[1] for s in F.subterms(f) if s[0] == 'const'))
    if not lits:
        return DISCARD('no-literal', labels)
    g = f
    consts = []
    for i, c in enumerate(lits):
        g = replace(g, ('const', c), ('var', 'k%d' % i))
        val = {'int': int(c), 'float': float(c), 'text': F.fmt_num(c)}[case['const_as']]
        consts.append(('k%d' % i, 'int' if case['const_as'] == 'int' else 'float', val))
    run = run_dt_off if kind == 'dt_off' else run_dt_on
    inl = run('out = ' + F.show(f), vs, tr)
    mod = run('out = ' + F.show(g), vs, tr, consts=consts)
    desc = 'kind %s\nmodular: out = %s  with declare_const%r\ninlined: out = %s\ntrace (Python integers): %s' % (kind, F.show(g), consts, F.show(f), tr)
    if inl[0] != 'ok':
        return DISCARD('inlined-raises(C17):' + inl[1], labels)
    if mod[0] != 'ok':
        return FAIL('modular-raises:%s:%s' % (kind, mod[1]), desc + '\nmodular specification raised %s: %s at %s' % (mod[1], mod[3], mod[4]), labels)
    a = [p[1] for p in mod[1]] if kind == 'dt_off' else mod[1]
    b = [p[1] for p in inl[1]] if kind == 'dt_off' else inl[1]
    if len(a) != len(b) or any(x != y for x, y in zip(a, b)):
        return FAIL('modular-differs:bigint-const:' + kind, desc + '\nmodular: %r\ninlined: %r' % (a, b), labels)
    return PASS(len(set(b)) > 1 or len(b) == 1, labels)


LANES.append(Lane('bigint_const', bigint_const_cases, check_bigint_const, 600, 6000, None))


# ---- a name that is defined again after it has been used -----------------------------------------------------------

def redefined_cases(tier):
    from hypothesis import strategies as st
    from ..formula import Profile

    @st.composite
    def mk(draw):
        kind = draw(st.sampled_from(['dt_off', 'dt_off', 'dt_on']))
        prof = (Profile(max_depth=3) if kind == 'dt_off' else Profile(un_temp=F.UN_PAST, bin_temp=F.BIN_PAST, tun=F.TUN_PAST, tbin=F.TBIN_PAST, max_depth=3)).copy(reuse=0.0)
        s1, vs = draw(F.formulas(prof.copy(max_depth=2)))
        s2, _ = draw(F.formulas(prof.copy(max_depth=2), variables=vs))
        t, _ = draw(F.formulas(prof, variables=vs + ['a']))
        if 'a' not in F.fvars(t):
            t = ('un', draw(st.sampled_from(['once', 'historically', 'not'])), ('var', 'a'))
        m, _ = draw(F.formulas(prof, variables=vs + ['a', 'b']))
        if not {'a', 'b'} <= set(F.fvars(m)):
            m = ('bin', draw(st.sampled_from(['and', 'or', 'implies'])), ('var', 'a'), ('var', 'b'))
        n = draw(F.trace_lengths(10))
        return {'kind': kind, 's1': s1, 's2': s2, 't': t, 'm': m, 'vars': vs, 'trace': draw(F.traces(vs, n=n)),
                'delivery': draw(st.sampled_from(['add_sub_spec', 'add_sub_spec', 'assertions']))}
    return mk()


def check_redefined(case):
    """a = s1; b = t(a); a = s2; out = m(a, b): a reference means the definition in force at that point, so the specification
    equals m(s2, t(s1)) written out."""
    from ..modular import replace
    from ..monitors import run_dt_off, run_dt_on
    s1, s2, t, m = (from_json(case[k]) for k in ('s1', 's2', 't', 'm'))
    kind = case['kind']
    a, b = ('var', 'a'), ('var', 'b')
    full = replace(replace(m, b, replace(t, a, s1)), a, s2)
    used = F.fvars(full)
    labels = ['kind:' + kind, 'delivery:' + case['delivery'], 'name-defined-again-after-use'] + feature_labels(full)
    if not used:
        return DISCARD('no-variable', labels)
    feed_vars = [v for v in case['vars'] if v in used]
    tr = {v: [float(x) for x in case['trace'][v]] for v in feed_vars}
    run = run_dt_off if kind == 'dt_off' else run_dt_on
    texts = ['a = ' + F.show(s1), 'b = ' + F.show(t), 'a = ' + F.show(s2)]
    inl = run('out = ' + F.show(full), feed_vars, tr)
    if case['delivery'] == 'add_sub_spec':
        mod = run('out = ' + F.show(m), feed_vars, tr, subspecs=texts)
    else:
        mod = run('; '.join(texts) + '; out = ' + F.show(m), feed_vars, tr)
    desc = 'kind %s, delivery %s\nrequirements in order: %s\nmain: out = %s\ninlined: out = %s\ntrace: %s' % (kind, case['delivery'], texts, F.show(m), F.show(full), tr)
    if inl[0] != 'ok':
        return DISCARD('inlined-raises(C17):' + inl[1], labels)
    if mod[0] != 'ok':
        return FAIL('modular-raises:%s:%s' % (kind, mod[1]), desc + '\nmodular specification raised %s: %s at %s' % (mod[1], mod[3], mod[4]), labels)
    x = [p[1] for p in mod[1]] if kind == 'dt_off' else mod[1]
    y = [p[1] for p in inl[1]] if kind == 'dt_off' else inl[1]
    if any(v != v for v in x + y):
        return DISCARD('nan', labels)
    tol = needs_tolerance(full)
    if len(x) != len(y) or any(not same(p, q, tol) for p, q in zip(x, y)):
        return FAIL('modular-differs:redefined:' + kind, desc + '\nmodular: %r\ninlined: %r' % (x, y), labels)
    return PASS(F.n_temporal(full) >= 1 and len(set(y)) > 1, labels)


LANES.append(Lane('redefined', redefined_cases, check_redefined, 1500, 15000, None))
