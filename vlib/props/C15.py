"""C15 - syntactic variants and documented sugar denote the same monitor."""
from hypothesis import strategies as st

from .. import formula as F
from .. import lang
from ..common import std_candidates, feature_labels, fmt_vals
from ..formula import Profile, from_json, show
from ..monitors import run_dt_off, run_dt_on, exc_outcome
from ..runner import Lane, PASS, FAIL, DISCARD
from ..spell import Tape, spec_text

PROPERTY = 'C15'

RULE = ('A formula from the typed grammar and two printings of it: canonical (keywords, ",", fully parenthesised, "out = ...;") versus a '
        'variant drawn from a choice tape: per node an alias (G F U W S O H X Y sX sY ! & | -> <->), ":" as separator, extra parentheses, '
        'dropped ";" / assertion head, white space or a comment after the final ";", and minimal parentheses computed from the precedence table transcribed from the grammar file '
        '(binary operators left-associative, prefix operands extend over tighter binary operators). Lanes: discrete offline (all '
        'operators), discrete online (past operators), unless[a,b] versus its documented expansion, untimed unless versus always phi or phi until psi on both front ends, LTL front end on untimed formulas '
        '(offline and pastified online) versus the STL front end. Lane embedded: the variant is the requirement of a text that declares its variables itself (input/output float v, with or without an initialising literal or expression, one declaration per line or all on one line) instead of through the API. Lane headless_ref: two requirements, the first written with or without its head (out =), the second reads it as out; also compared with the reference for the second requirement with the first one substituted. Oracle: identical results (a variant that raises where the canonical '
        'text evaluates is a difference). Non-trivial = the variant differs from the canonical text in >= 2 token kinds or parentheses '
        'were dropped, and the result is not constant; distinct = distinct (canonical text, variant text, trace) digests.')

ASSUMPTIONS = [
    'precedence, tightest first: unary minus/functions; * /; + -; comparisons; not; prefix temporal operators; until; unless; since; and; or; implies; iff; xor',
    'parentheses are dropped only where this table is unambiguous (tighter or same-level-left binary child, prefix child where no tighter operator follows)',
    'the printed variant is accepted by the independent recogniser of C14 before it is used (otherwise the case is discarded as a harness error)',
]

FULL = Profile(tbin=('since', 'until', 'unless'), max_depth=4)
PAST = Profile(un_temp=F.UN_PAST, bin_temp=F.BIN_PAST, tun=F.TUN_PAST, tbin=F.TBIN_PAST, max_depth=4)
UNTIMED = Profile(tun=(), tbin=(), max_depth=4)
UNTIMED_BF = Profile(tun=(), tbin=(), un_temp=F.UN_PAST + ('next', 's_next'), bin_temp=F.BIN_PAST, max_depth=4)

TAPE = st.lists(st.integers(0, 23), min_size=40, max_size=40)


@st.composite
def cases(draw, tier, kind):
    prof = {'dt_off': FULL, 'dt_on': PAST, 'ltl_off': UNTIMED, 'ltl_on': UNTIMED_BF}[kind]
    if tier == 'thorough':
        prof = prof.copy(max_depth=5)
    f, vs = draw(F.formulas(prof))
    n = draw(F.trace_lengths(8))
    tr = draw(F.traces(vs, n=n))
    return {'formula': f, 'vars': vs, 'trace': tr, 'tape': draw(TAPE), 'kind': kind}


LOOKALIKE = ['x', 'y', 'Gx', 'Fx', 'Ox', 'Hx', 'Xx', 'Yx', 'notx', 'xUy', 'xSy', 'xandy', 'Gy', 'alwaysx', 'sXx', 'x/y', 'x.y']


@st.composite
def lookalike_cases(draw, tier):
    """Variables whose names are an operator spelling glued to another variable name (Gx, notx, xUy, x/y): the variant
    'G x' must stay 'always x' even when a variable Gx occurs in the same specification."""
    k = draw(st.integers(1, 3))
    extra = draw(st.lists(st.sampled_from(LOOKALIKE[2:]), min_size=k, max_size=k, unique=True))
    vs = ['x', 'y'] + extra
    f, _ = draw(F.formulas(FULL.copy(max_depth=3, var_pool=tuple(vs), nvars=len(vs)), variables=vs))
    # make sure a look-alike variable really occurs next to its look-alike construct
    g = ('pred', '>=', ('var', draw(st.sampled_from(extra))), ('const', 1.0))
    op = draw(st.sampled_from(['always', 'eventually', 'once', 'historically', 'next', 'prev', 'not']))
    hx = ('un', op, ('var', draw(st.sampled_from(['x', 'y']))))
    f = ('bin', draw(st.sampled_from(['and', 'or', 'implies'])), draw(st.sampled_from([hx, ('bin', 'until', ('var', 'x'), ('var', 'y'))])),
         ('bin', draw(st.sampled_from(['and', 'or'])), g, f))
    if draw(st.booleans()):
        f = ('bin', 'and', f[3], f[2])
    n = draw(F.trace_lengths(6))
    return {'formula': f, 'vars': vs, 'trace': draw(F.traces(vs, n=n)), 'tape': draw(TAPE), 'kind': 'dt_off'}


@st.composite
def unless_cases(draw, tier):
    prof = FULL.copy(max_depth=3)
    nv = draw(st.integers(1, 2))
    vs = list(F.VAR_POOL[:nv])
    p, _ = draw(F.formulas(prof, variables=vs))
    q, _ = draw(F.formulas(prof, variables=vs))
    b = draw(st.integers(0, 5))
    a = draw(st.integers(0, b))
    n = draw(F.trace_lengths(8))
    return {'p': p, 'q': q, 'a': a, 'b': b, 'vars': vs, 'trace': draw(F.traces(vs, n=n)),
            'unit': draw(st.sampled_from(['s', 's', 'ms', 'us'])), 'choices': draw(st.lists(st.integers(0, 11), min_size=8, max_size=8))}


INITS = ('', '', ' = 0', ' = 1.5', ' = (%s)', ' = %s', ' = %s + 1', ' = - %s', ' = abs(%s)', ' = %s * 2')


@st.composite
def embedded_cases(draw, tier):
    """The variant is the requirement of a specification text that declares its variables in the text: 'input float x',
    'float y = 0', 'float y = (x)' (the initialising literal or expression has no effect on monitoring), each declaration on
    its own line or all on one; the requirement follows with or without its head."""
    c = draw(cases(tier, draw(st.sampled_from(['dt_off', 'dt_off', 'dt_on']))))
    c['prologue'] = {'io': draw(st.lists(st.sampled_from(['', '', 'input ', 'output ']), min_size=4, max_size=4)),
                     'init': draw(st.lists(st.integers(0, len(INITS) - 1), min_size=4, max_size=4)),
                     'other': draw(st.lists(st.integers(0, 3), min_size=4, max_size=4)),
                     'sep': draw(st.sampled_from(['\n', '\n', ' ', '\n\n', ' // declared here\n'])),
                     'order': draw(st.integers(0, 5))}
    return c


def prologue_text(pro, feed):
    names = list(feed)
    k = pro['order'] % max(1, len(names))
    names = names[k:] + names[:k]
    out = []
    for i, v in enumerate(names):
        init = INITS[pro['init'][i % 4]]
        if '%s' in init:
            init = init % names[pro['other'][i % 4] % len(names)]
        out.append('%sfloat %s%s' % (pro['io'][i % 4], v, init))
    return pro['sep'].join(out) + ('\n' if pro['sep'] != ' ' else ' ')


def ltl_spec(online):
    from rtamt.spec.abstract_specification import AbstractOfflineSpecification, AbstractOnlineSpecification
    from rtamt.syntax.ast.parser.ltl.specification_parser import LtlAst
    from rtamt.semantics.stl.discrete_time.offline.interpreter import StlDiscreteTimeOfflineInterpreter
    from rtamt.semantics.stl.discrete_time.online.interpreter import StlDiscreteTimeOnlineInterpreter
    from rtamt.pastifier.ltl.pastifier import LtlPastifier
    if online:
        return AbstractOnlineSpecification(LtlAst(), StlDiscreteTimeOnlineInterpreter(), pastifier=LtlPastifier())
    return AbstractOfflineSpecification(LtlAst(), StlDiscreteTimeOfflineInterpreter())


def run_ltl(text, vs, tr, online):
    try:
        spec = ltl_spec(online)
        for v in vs:
            spec.declare_var(v, 'float')
        spec.spec = text
        spec.parse()
        n = len(tr[vs[0]])
        if online:
            spec.pastify()
            return ('ok', [spec.update(i, [(v, tr[v][i]) for v in vs]) for i in range(n)])
        out = spec.evaluate({'time': [float(i) for i in range(n)], **{v: list(tr[v]) for v in vs}})
        return ('ok', [p[1] for p in out])
    except RecursionError:
        raise
    except Exception as e:  # noqa
        return exc_outcome(e)


def run_kind(kind, text, vs, tr, **cfg):
    if kind == 'dt_off':
        o = run_dt_off(text, vs, tr, **cfg)
        return ('ok', [p[1] for p in o[1]]) if o[0] == 'ok' else o
    if kind == 'dt_on':
        return run_dt_on(text, vs, tr, **cfg)
    raise ValueError(kind)


def token_kinds_changed(a, b):
    ta = [t for _k, t in lang.tokenize(a)[0]]
    tb = [t for _k, t in lang.tokenize(b)[0]]
    sa, sb = set(ta), set(tb)
    return len((sa - sb) | (sb - sa)), ta.count('(') - tb.count('(')


def compare(labels, canon_text, var_text, oc, ov, tr, what):
    desc = '%s\ncanonical: %s\nvariant:   %s\ntrace: %s' % (what, canon_text, var_text, tr)
    if oc[0] != 'ok':
        return DISCARD('canonical-raises(C17)', labels)
    if ov[0] != 'ok':
        return FAIL('variant-raises:%s@%s' % (ov[1], ov[4].split(':')[-1]), desc + '\nvariant raised %s: %s' % (ov[1], ov[3]), labels)
    a, b = oc[1], ov[1]
    if any(x != x for x in a):
        return DISCARD('nan', labels)
    if len(a) != len(b) or any(x != y for x, y in zip(a, b)):
        return FAIL('variant-differs:' + what.split()[0], desc + '\ncanonical result: %s\nvariant result:   %s' % (fmt_vals(a), fmt_vals(b)), labels)
    return None


def check(case):
    f = from_json(case['formula'])
    kind = case['kind']
    vs = list(case['vars'])
    tr = {v: [float(x) for x in case['trace'][v]] for v in vs}
    n = len(tr[vs[0]])
    labels = ['kind:' + kind] + feature_labels(f, n)
    used = F.fvars(f)
    if not used:
        return DISCARD('no-variable', labels)
    feed = [v for v in vs if v in used]
    w = {v: tr[v] for v in feed}
    canon = 'out = ' + show(f) + ';'
    if kind in ('ltl_off', 'ltl_on'):
        online = kind == 'ltl_on'
        if online and F.horizon(f) is None:
            return DISCARD('unbounded', labels)
        o_stl = run_dt_on(canon, feed, w, pastify=True) if online else run_kind('dt_off', canon, feed, w)
        o_ltl = run_ltl(canon, feed, w, online)
        if online and o_stl[0] == 'ok' and o_ltl[0] == 'ok':
            # outputs before the horizon are warm-up values and unconstrained (C03)
            h = F.horizon(f)
            o_stl = ('ok', o_stl[1][h:])
            o_ltl = ('ok', o_ltl[1][h:])
        bad = compare(labels, canon, canon, o_stl, o_ltl, w, 'ltl-front-end (%s) vs stl front end' % kind)
        if bad:
            return bad
        return PASS(F.n_temporal(f) >= 1 and len(set(o_stl[1])) > 1, labels)
    var = spec_text(f, Tape(case['tape']))
    cfg = {}
    if case.get('prologue') is not None:
        # the variant stands in a specification text that declares its variables itself (not through the API)
        var = prologue_text(case['prologue'], feed) + var
        cfg = dict(declare=False)
        labels.append('declarations-in-text')
    acc, _t, illegal = lang.accepts(var)
    if not acc or illegal:
        return DISCARD('HARNESS:variant-not-derivable', labels)
    oc = run_kind(kind, canon, feed, w)
    ov = run_kind(kind, var, feed, w, **cfg)
    bad = compare(labels, canon, var, oc, ov, w, 'spelling (%s)' % kind)
    if bad:
        return bad
    nk, dropped = token_kinds_changed(canon, var)
    if dropped > 0:
        labels.append('parens-dropped')
    return PASS((nk >= 2 or dropped > 0) and len(set(oc[1])) > 1, labels)


def check_unless(case):
    p = from_json(case['p'])
    q = from_json(case['q'])
    a, b = case['a'], case['b']
    vs = list(case['vars'])
    tr = {v: [float(x) for x in case['trace'][v]] for v in vs}
    n = len(tr[vs[0]])
    lhs = ('tbin', 'unless', a, b, p, q)
    rhs = ('bin', 'or', ('tun', 'always', 0, b, p), ('tbin', 'until', a, b, p, q))
    labels = ['kind:unless'] + feature_labels(lhs, n)
    used = F.fvars(lhs)
    if not used:
        return DISCARD('no-variable', labels)
    feed = [v for v in vs if v in used]
    w = {v: tr[v] for v in feed}
    # the sugar is spelled with units (sampling period 1 s), the expansion with explicit seconds on both bounds
    from .C08 import Speller
    du = case.get('unit', 's')
    sp = Speller(10 ** 9, du, case.get('choices', [0]))
    plain = Speller(10 ** 9, du, [0])      # choice 0: first explicit-unit spelling (seconds), both bounds suffixed
    tl = 'out = ' + F.show(lhs, lambda x, y: sp(x, y) if (x, y) == (a, b) else plain(x, y)) + ';'
    trr = 'out = ' + F.show(rhs, plain) + ';'
    kw = dict(unit=du)
    o_r = run_dt_off(trr, feed, w, **kw)
    o_l = run_dt_off(tl, feed, w, **kw)
    o_r = ('ok', [x[1] for x in o_r[1]]) if o_r[0] == 'ok' else o_r
    o_l = ('ok', [x[1] for x in o_l[1]]) if o_l[0] == 'ok' else o_l
    bad = compare(labels, trr, tl, o_r, o_l, w, 'unless-expansion')
    if bad:
        return bad
    return PASS(True, labels)


@st.composite
def unless_untimed_cases(draw, tier):
    """phi unless psi without interval: always phi or phi until psi; STL front end and LTL front end (offline)."""
    prof = UNTIMED.copy(max_depth=3)
    nv = draw(st.integers(1, 2))
    vs = list(F.VAR_POOL[:nv])
    p, _ = draw(F.formulas(prof, variables=vs))
    q, _ = draw(F.formulas(prof, variables=vs))
    n = draw(F.trace_lengths(8))
    return {'p': p, 'q': q, 'vars': vs, 'trace': draw(F.traces(vs, n=n)), 'alias': draw(st.booleans()), 'front': draw(st.sampled_from(['stl', 'ltl']))}


def check_unless_untimed(case):
    p = from_json(case['p'])
    q = from_json(case['q'])
    vs = list(case['vars'])
    tr = {v: [float(x) for x in case['trace'][v]] for v in vs}
    n = len(tr[vs[0]])
    rhs = ('bin', 'or', ('un', 'always', p), ('bin', 'until', p, q))
    labels = ['kind:unless-untimed', 'front:' + case['front']] + feature_labels(rhs, n)
    used = F.fvars(rhs)
    if not used:
        return DISCARD('no-variable', labels)
    feed = [v for v in vs if v in used]
    w = {v: tr[v] for v in feed}
    tl = 'out = (%s) %s (%s);' % (show(p), 'W' if case['alias'] else 'unless', show(q))
    trr = 'out = ' + show(rhs) + ';'
    if case['front'] == 'ltl':
        o_r, o_l = run_ltl(trr, feed, w, False), run_ltl(tl, feed, w, False)
    else:
        o_r, o_l = run_kind('dt_off', trr, feed, w), run_kind('dt_off', tl, feed, w)
    bad = compare(labels, trr, tl, o_r, o_l, w, 'unless-untimed-expansion (%s front end)' % case['front'])
    if bad:
        return bad
    return PASS(len(set(o_r[1])) > 1, labels)


def candidates(case):
    for c in std_candidates(case):
        yield c
    tape = case['tape']
    for i, x in enumerate(tape):
        if x != 0:
            c = dict(case)
            c['tape'] = tape[:i] + [0] + tape[i + 1:]
            yield c


def cand_unless(case):
    from ..common import formula_candidates
    for key in ('p', 'q'):
        for f2 in list(formula_candidates(from_json(case[key]))) + [('var', case['vars'][0])]:
            if f2[0] == 'const' or f2 == from_json(case[key]):
                continue
            c = dict(case)
            c[key] = f2
            yield c
    n = len(next(iter(case['trace'].values())))
    if n > 1:
        c = dict(case)
        c['trace'] = {v: xs[:-1] for v, xs in case['trace'].items()}
        yield c


LANES = [
    Lane('embedded', lambda tier: embedded_cases(tier), check, 2000, 30000, candidates),
    Lane('lookalike', lambda tier: lookalike_cases(tier), check, 1200, 15000, candidates),
    Lane('dt_off', lambda tier: cases(tier, 'dt_off'), check, 4000, 60000, candidates),
    Lane('dt_on', lambda tier: cases(tier, 'dt_on'), check, 2000, 30000, candidates),
    Lane('unless', lambda tier: unless_cases(tier), check_unless, 1000, 15000, cand_unless),
    Lane('unless_untimed', lambda tier: unless_untimed_cases(tier), check_unless_untimed, 1000, 10000, cand_unless),
    Lane('ltl_off', lambda tier: cases(tier, 'ltl_off'), check, 3000, 30000, std_candidates),
    Lane('ltl_on', lambda tier: cases(tier, 'ltl_on'), check, 5000, 50000, std_candidates),
]


# ---- a requirement without head that a later requirement refers to as `out` -------------------------------------------

@st.composite
def headless_ref_cases(draw, tier):
    """Two requirements: the first one (P) is written with or without its head `out =`, the second one (r = G) reads `out`."""
    kind = draw(st.sampled_from(['dt_off', 'dt_off', 'dt_on']))
    prof = (FULL if kind == 'dt_off' else PAST).copy(max_depth=3)
    p, vs = draw(F.formulas(prof))
    g, _ = draw(F.formulas(prof, variables=vs + ['out']))
    if 'out' not in F.fvars(g):
        g = ('bin', draw(st.sampled_from(['and', 'or', 'implies'])), ('var', 'out'), g) if draw(st.booleans()) else ('un', draw(st.sampled_from(['once', 'historically', 'not'])), ('var', 'out'))
    n = draw(F.trace_lengths(10))
    return {'kind': kind, 'p': p, 'g': g, 'vars': vs, 'trace': draw(F.traces(vs, n=n))}


def check_headless_ref(case):
    """`P; r = G(out)` against `out = P; r = G(out)` and against the reference for G with P substituted for out."""
    from ..modular import replace
    from ..refsem import dt, Undefined, needs_tolerance, same
    p, g = from_json(case['p']), from_json(case['g'])
    kind = case['kind']
    vs = list(case['vars'])
    full = replace(g, ('var', 'out'), p)
    used = F.fvars(full)
    labels = ['kind:' + kind, 'headless-requirement-read-as-out'] + feature_labels(full)
    if not used:
        return DISCARD('no-variable', labels)
    feed = [v for v in vs if v in used]
    tr = {v: [float(x) for x in case['trace'][v]] for v in feed}
    n = len(tr[feed[0]])
    try:
        ref = dt(full, tr, n)
    except Undefined:
        return DISCARD('undefined', labels)
    canon = 'out = %s; r = %s' % (show(p), show(g))
    variant = '%s; r = %s' % (show(p), show(g))
    oc = run_kind(kind, canon, feed, tr)
    ov = run_kind(kind, variant, feed, tr)
    if oc[0] != 'ok':
        return DISCARD('canonical-raises(C17):' + oc[1], labels)
    desc = 'monitor %s\nwith head:    %s\nwithout head: %s\ntrace: %s' % (kind, canon, variant, tr)
    if ov[0] != 'ok':
        return FAIL('variant-raises:%s@%s' % (ov[1], ov[4].split(':')[-1]), desc + '\nthe text without the head raised %s: %s at %s' % (ov[1], ov[3], ov[4]), labels)
    vc, vv = oc[1], ov[1]
    tol = needs_tolerance(full)
    if len(vc) != len(vv) or any(not same(a, b, tol) for a, b in zip(vc, vv)):
        return FAIL('headless-differs:' + kind, desc + '\nwith head:    %s\nwithout head: %s' % (fmt_vals(vc), fmt_vals(vv)), labels)
    if any(not same(a, b, tol) for a, b in zip(vc, ref)):
        return DISCARD('canonical-differs-from-reference(C09)', labels)
    return PASS(F.n_temporal(full) >= 1 and len(set(ref)) > 1, labels)


LANES.append(Lane('headless_ref', lambda tier: headless_ref_cases(tier), check_headless_ref, 1500, 15000, None))
