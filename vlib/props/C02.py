"""C02 - the discrete-time online monitor equals offline evaluation at every step."""
from hypothesis import strategies as st

from .. import formula as F
from ..common import dt_cases, std_candidates, feature_labels, fmt_vals, giant_cases
from ..formula import Profile, from_json, show
from ..monitors import run_dt_on, run_dt_off
from ..refsem import dt, Undefined, needs_tolerance, same
from ..runner import Lane, PASS, FAIL, DISCARD

PROPERTY = 'C02'

RULE = ('Typed random past-time STL grammar (no future operator; reuse of already drawn sub-formulas raised to 0.3 so that '
        'duplicate printed names over stateful nodes are common) x random traces of length 1..16 fed one update() per sample with '
        'exactly the free variables (lanes main, dup, deep, and long: 16-48 samples with bounds up to 20; one trace in five uses very few distinct values so that exact zeros and ties occur). Lane timestamps: the updates carry repeated time stamps (two samples at one instant), one stamp for all, irregular floats, epoch seconds or a negative start instead of 0, 1, 2, ... Lane bigint: integer samples of the order of 1.7e18 whose small differences are compared with constants (reference in exact integer arithmetic). Lane giant: once/historically with windows of 200..1100 samples (around 256, 512, 1024), since up to 300, lower bound 0..300, mostly flat traces with isolated extreme samples. Oracle: update_i == R-dt(spec, w)[i] (reference) and == rtamt offline evaluate(w)[i] for every i. '
        'Non-trivial = formula has a stateful operator (prev, s_prev, rise, fall, once, historically, since, bounded or not) and '
        'n >= 2; distinct = distinct (formula text, trace) digests.')

ASSUMPTIONS = [
    'conventions of C01 (weak prev, strong s_prev, window clipping at 0)',
    'a disagreement online/offline in which the offline side differs from the reference is attributed to C01, not reported here',
    'values compared exactly; relative tolerance 1e-9 only when / sqrt exp ln log pow occur',
]

PAST = Profile(un_temp=F.UN_PAST, bin_temp=F.BIN_PAST, tun=F.TUN_PAST, tbin=F.TBIN_PAST, reuse=0.3, max_bound=6)


def _profile(tier, **kw):
    p = PAST.copy(**kw)
    if tier == 'thorough':
        p.max_depth = max(p.max_depth, 5)
        p.max_bound = max(p.max_bound, 8)
    return p


def strat_main(tier):
    return dt_cases(_profile(tier), max_n=16 if tier == 'quick' else 24)


def strat_dup(tier):
    return dt_cases(_profile(tier, reuse=0.6, nvars=1, bin_arith=('+', '-'), un_arith=('abs', 'neg')), max_n=10)


def strat_deep(tier):
    return dt_cases(_profile(tier, max_depth=6, nvars=2), max_n=10)


def attribute(f, vs, tr, n):
    for s in sorted(set(F.subterms(f)), key=F.size):
        if s[0] in ('var', 'const'):
            continue
        try:
            ref = dt(s, tr, n)
        except Undefined:
            continue
        used = F.fvars(s) or vs[:1]
        o = run_dt_on('out = ' + show(s), used, {v: tr[v] for v in used})
        if o[0] != 'ok':
            return 'exc-in:' + F.op_of(s)
        tol = needs_tolerance(s)
        if any(not same(a, b, tol) for a, b in zip(o[1], ref)):
            return F.op_of(s)
    subs = [s for s in F.subterms(f) if s[0] not in ('var', 'const')]
    dups = [s for s in set(subs) if subs.count(s) > 1 and any(o in F.STATEFUL_ONLINE for o in F.ops(s))]
    if dups:
        return 'duplicate-stateful-subformula'
    return 'nested'


def check(case):
    f = from_json(case['formula'])
    vs = list(case['vars'])
    tr = {v: [float(x) for x in case['trace'][v]] for v in vs}
    n = len(tr[vs[0]])
    labels = feature_labels(f, n)
    try:
        ref = dt(f, tr, n)
    except Undefined as e:
        return DISCARD('undefined', labels)
    text = 'out = ' + show(f)
    used = F.fvars(f)
    if not used:
        return DISCARD('no-variable', labels)
    feed = [v for v in vs if v in used]
    tcol = case.get('time')
    if tcol is not None:
        labels = labels + ['time-stamps:' + case.get('time_kind', 'given')]
    on = run_dt_on(text, feed, {v: tr[v] for v in feed}, time=tcol)
    stateful = [o for o in F.ops(f) if o in F.STATEFUL_ONLINE]
    nontrivial = bool(stateful) and n >= 2
    if stateful:
        labels = labels + ['stateful']
    if on[0] != 'ok':
        return FAIL('exc:%s@%s' % (on[1], on[4]), 'spec: %s\ntrace: %s\nonline raised %s: %s at %s' % (text, tr, on[1], on[3], on[4]), labels)
    got = on[1]
    tol = needs_tolerance(f)
    bad_ref = [i for i in range(n) if not same(got[i], ref[i], tol)]
    off = run_dt_off(text, feed, {v: tr[v] for v in feed}, time=tcol)
    if off[0] != 'ok':
        return DISCARD('offline-exception(C01/C17)', labels)
    offv = [p[1] for p in off[1]]
    off_ok = all(same(a, b, tol) for a, b in zip(offv, ref))
    if not off_ok:
        return DISCARD('offline-differs-from-reference(C01)', labels)
    bad_off = [i for i in range(n) if not same(got[i], offv[i], tol)]
    if bad_ref or bad_off:
        key = 'mismatch:' + attribute(f, feed, tr, n)
        return FAIL(key, ('' if tcol is None else 'time stamps of the updates: %s\n' % (tcol,)) + 'spec: %s\ntrace: %s\nonline updates: %s\noffline:        %s\nreference:      %s\nfirst differing step: %d' % (
            text, {v: tr[v] for v in feed}, fmt_vals(got), fmt_vals(offv), fmt_vals(ref), (bad_ref or bad_off)[0]), labels)
    return PASS(nontrivial, labels)


@st.composite
def strat_timestamps_(draw, tier):
    """The updates carry time stamps other than 0, 1, 2, ...: repeated stamps (two samples at one instant), one stamp for the whole
    trace, irregular floats, seconds since the epoch, a negative start. The values do not depend on them."""
    c = draw(dt_cases(_profile(tier), max_n=12, min_n=2))
    n = len(next(iter(c['trace'].values())))
    kind = draw(st.sampled_from(['repeated', 'repeated', 'constant', 'irregular', 'epoch', 'negative']))
    if kind == 'repeated':
        t, col = draw(st.sampled_from([0, 3])), []
        for _ in range(n):
            col.append(t)
            t += draw(st.sampled_from([0, 0, 1, 1, 2]))
    elif kind == 'constant':
        col = [draw(st.sampled_from([0, 5, 2.5]))] * n
    elif kind == 'irregular':
        t, col = 0.0, []
        for _ in range(n):
            col.append(t)
            t += draw(st.sampled_from([0.25, 1.0, 1.0, 1.5, 10.0]))
    elif kind == 'epoch':
        col = [1700000000 + i for i in range(n)]
    else:
        col = [-5 + i for i in range(n)]
    c['time'] = col
    c['time_kind'] = kind
    return c


def strat_long(tier):
    """Few but large cases: long traces and deep ring buffers (bounds up to 20), up to five variables."""
    return dt_cases(_profile(tier, max_depth=3, max_bound=20, nvars=5), max_n=48, min_n=16)


def strat_floats(tier):
    return dt_cases(_profile(tier, var_bound=1e6, max_depth=4), max_n=10)


@st.composite
def strat_near_twins_(draw, tier):
    """g JOIN g' where g' differs from g in one label: operators are keyed by printed name, near-identical names must not
    share state or cached values."""
    from ..common import near_twin
    c = draw(dt_cases(_profile(tier, max_depth=3, nvars=2), max_n=10))
    g = from_json(c['formula'])
    g2 = draw(near_twin(g))
    if g2 is None or g2 == g:
        g2 = ('un', 'not', g)
    join = draw(st.sampled_from(['and', 'or', 'implies', 'since']))
    c['formula'] = ('bin', join, g, g2) if draw(st.booleans()) else ('bin', join, g2, g)
    return c


@st.composite
def strat_verylong_(draw, tier):
    """Windows of 33..48 (sometimes 63..129) samples on traces of 50..170 samples drawn from very few distinct values (exact ties inside one window)."""
    p = _profile(tier, max_depth=2, nvars=2)
    f, vs = draw(F.formulas(p))
    b = draw(st.sampled_from(list(range(33, 49)) + [63, 64, 65, 66, 70, 96, 127, 128, 129]))
    a = draw(st.sampled_from([0, 0, 1, 5, b]))
    ops = ['once', 'historically'] + (['eventually', 'always'] if PROPERTY == 'C01' else [])
    f = ('tun', draw(st.sampled_from(ops)), min(a, b), b, f)
    if draw(st.booleans()):
        f = ('un', 'not', f)
    n = max(50, b + 2) + draw(st.integers(0, 40))
    vals = st.sampled_from([0.0, 1.0, -1.0, 2.0, 5.0, -3.0])
    tr = {v: draw(st.lists(vals, min_size=n, max_size=n)) for v in vs}
    return {'formula': f, 'vars': vs, 'trace': tr}


def check_bigint(case):
    """Integer samples beyond 2**53, one update per sample, against the reference in exact integer arithmetic."""
    from .. import refsem
    f = from_json(case['formula'])
    vs = list(case['vars'])
    tr = {v: [int(x) for x in case['trace'][v]] for v in vs}
    n = len(tr[vs[0]])
    labels = feature_labels(f, n) + ['integer-samples>2^53']
    refsem.KEEP_INTEGERS = True
    try:
        ref = dt(f, tr, n)
    except Undefined:
        return DISCARD('undefined', labels)
    finally:
        refsem.KEEP_INTEGERS = False
    o = run_dt_on('out = ' + show(f), vs, tr)
    if o[0] != 'ok':
        return FAIL('exc:%s@%s' % (o[1], o[4]), 'spec: out = %s\ntrace (integers): %s\nraised %s: %s' % (show(f), tr, o[1], o[3]), labels)
    if len(o[1]) != n or any(a != b for a, b in zip(o[1], ref)):
        return FAIL('mismatch:integer-samples', 'spec: out = %s\ntrace (Python integers): %s\nupdates:   %r\nreference (exact integer arithmetic): %r' % (
            show(f), tr, o[1], ref), labels)
    return PASS(n >= 2, labels)


LANES = [
    Lane('bigint', lambda tier: __import__('vlib.common', fromlist=['bigint_cases']).bigint_cases(past_only=True), check_bigint, 500, 5000, None),
    Lane('giant', lambda tier: giant_cases(F.TUN_PAST, ('since',)), check, 60, 600, None),
    Lane('verylong', lambda tier: strat_verylong_(tier), check, 150, 2000, std_candidates),
    Lane('near_twins', lambda tier: strat_near_twins_(tier), check, 2000, 30000, std_candidates),
    Lane('floats', strat_floats, check, 1000, 15000, std_candidates),
    Lane('long', strat_long, check, 300, 5000, std_candidates),
    Lane('timestamps', lambda tier: strat_timestamps_(tier), check, 2000, 20000, std_candidates),
    Lane('main', strat_main, check, 5000, 60000, std_candidates),
    Lane('dup', strat_dup, check, 3000, 30000, std_candidates),
    Lane('deep', strat_deep, check, 1500, 20000, std_candidates),
]
