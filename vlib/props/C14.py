"""C14 - the parser accepts exactly the specification language and fails only cleanly."""
import signal
from fractions import Fraction

from hypothesis import strategies as st

from .. import formula as F
from .. import lang
from ..formula import Profile, show
from ..monitors import make_spec, exc_outcome, Captured
from ..runner import Lane, PASS, FAIL, DISCARD

PROPERTY = 'C14'
QUICK_SCALE = 1.5

RULE = ('Three generators of specification texts: (1) grammar-derived files (typed formulas printed with random aliases/separators, '
        'wrapped with specification header, declarations, constants, several assertions, comments, odd whitespace); (2) token-level '
        'mutations of (1): delete/duplicate/swap/replace a token, truncate, insert characters outside the lexer alphabet, append trailing '
        'tokens, swap interval bounds, hex/binary literals, undeclared bound constant, undeclared identifier, dotted identifiers, literals of extreme magnitude as bounds (1e5000, 4400 digits), the empty text / white space / a comment only; files may import a type from a module that exists or not (from M import T, a variable of that type and one of its fields), carry a ROS topic annotation of a variable / constant / unknown name, and constants declared through the API may have non-finite values (inf, nan, 1e400); (3) token '
        'soup of 1-40 vocabulary tokens; thorough tier: (4) coverage-guided atheris/libFuzzer campaigns over token sequences with the same oracle inside the target. Oracle: parse() returns or raises RTAMTException only; an unmutated file of generator (1) (integer literals also written in hexadecimal, binary or with underscores) has to be accepted; if it returns, an independent tokenizer '
        '+ recogniser (vlib/lang.py) accepts the text, no character was skipped, every interval satisfies 0 <= begin <= end, every bound '
        'identifier is a declared constant, and the first evaluate() on a 4-sample data set supplying every referenced variable returns '
        'or raises RTAMTException. Non-trivial = rejected at a position after the first token, or accepted with >= 1 temporal operator; '
        'distinct = distinct texts (+ declarations).')

ASSUMPTIONS = [
    'termination is observed under a 20 s alarm per text (<= 200 tokens); a slower case would be reported as inconclusive, not as a violation',
    'arithmetic-domain errors (ZeroDivisionError, math domain, overflow) raised by evaluate() are data faults: discarded and counted',
    'the recogniser accepts the full context-free language of the grammar files (a superset of what the precedence-resolving ANTLR parser accepts)',
]

U = {'s': 10 ** 9, 'ms': 10 ** 6, 'us': 10 ** 3, 'ns': 1}
FULL = Profile(tbin=('since', 'until', 'unless'), max_depth=4)

ALIASES = {
    'always': ['G'], 'eventually': ['F'], 'until': ['U'], 'unless': ['W'], 'since': ['S'], 'once': ['O'],
    'historically': ['H'], 'next': ['X'], 'prev': ['Y'], 's_next': ['sX'], 's_prev': ['sY'], 'not': ['!'],
    'and': ['&'], 'or': ['|'], 'implies': ['->'], 'iff': ['<->'],
}
VOCAB = [s for _n, s in lang.LITERALS] + ['x', 'y', 'foo', 'x.y', 'a/b', '1', '0', '2.5', '.5', '1e3', '0x1F', '0b101', '1_000', '3.', '007']
JUNK = ['#', '~', '^', '%', '"', "'", '\\', '?', '`', 'é', '∀', '$', '\t', '\n', '@', '{', '}', '.',
        # characters that Python counts as white space but the lexer does not
        '\x0b', '\x1c', '\x85', '\xa0', '\u2003', '\u3000']


class _Timeout(Exception):
    pass


def _alarm(signum, frame):
    raise _Timeout()


@st.composite
def spec_files(draw, tier):
    """Generator (1): returns dict(tokens=[...], declare=[...], consts=[...])."""
    nv = draw(st.integers(1, 3))
    start = draw(st.integers(0, len(F.VAR_POOL) - 1))
    vs = [F.VAR_POOL[(start + i) % len(F.VAR_POOL)] for i in range(nv)]
    n_assert = draw(st.sampled_from([1, 1, 1, 2, 3]))
    toks = []
    declare = []
    consts = []
    if draw(st.integers(0, 4)) == 0:
        toks += ['specification', 'spec_1']
    typed = None
    if draw(st.integers(0, 5)) == 0:
        # a type imported from a module (existing or not) and a variable of that type whose field is used below
        mod, typ = draw(st.sampled_from([('fractions', 'Fraction'), ('math', 'Foo'), ('nosuchmod', 'Foo'), ('collections', 'OrderedDict'),
                                          ('fractions', 'Fraction'), ('os', 'path'), ('rtamt', 'Nope'),
                                          # names that are callable but not types: creating the variable must not call them
                                          ('sys', 'exit'), ('os', 'getcwd'), ('math', 'sqrt'), ('fractions', 'gcd'),
                                          # types whose constructor, or whose property, raises something of its own
                                          ('pathlib', 'WindowsPath'), ('multiprocessing.process', 'BaseProcess'), ('multiprocessing.process', 'BaseProcess')]))
        toks += ['from', mod, 'import', typ]
        typed = typ
    for v in vs:
        how = draw(st.sampled_from(['api', 'api', 'text', 'text-io', 'implicit']))
        if how == 'api':
            declare.append(v)
        elif how == 'text':
            toks += ['float', v]
        elif how == 'text-io':
            toks += [draw(st.sampled_from(['input', 'output'])), 'float', v]
    if typed:
        toks += [typed, 'obj']
    if draw(st.integers(0, 5)) == 0:
        # ROS-style annotation of a variable, a constant, the output or a name that does not exist
        toks += ['@', 'topic', '(', draw(st.sampled_from(vs + ['kc', 'out', 'nosuch', 'obj'])), ',', draw(st.sampled_from(['foo', 'a/b', 'x']))] + [')']
    use_const = draw(st.integers(0, 3)) == 0
    if use_const:
        if draw(st.booleans()):
            toks += ['const', 'int', 'kc', '=', '2']
        else:
            # declared through the API; now and then with a value that is not a finite number
            consts.append(['kc', 'int', '2'] if draw(st.integers(0, 5)) else ['kc', 'float', draw(st.sampled_from(['inf', 'nan', '-inf', '1e400', '-2', '1e-400', '2.5']))])
    names = []
    for a in range(n_assert):
        f, _ = draw(F.formulas(FULL, variables=vs + names))
        text = show(f)
        ftoks = [t for _k, t in lang.tokenize(text)[0]]
        # random aliases / separators
        out = []
        depth_br = 0
        for t in ftoks:
            if t == '[':
                depth_br += 1
            elif t == ']':
                depth_br -= 1
            if t in ALIASES and draw(st.integers(0, 2)) == 0:
                t = draw(st.sampled_from(ALIASES[t]))
            elif t == ',' and depth_br > 0 and draw(st.booleans()):
                t = ':'
            out.append(t)
        if use_const and '[' in out and draw(st.booleans()):
            # use the constant as an upper bound with an explicit unit
            i = len(out) - 1 - out[::-1].index(']')
            if draw(st.integers(0, 3)) == 0 and i >= 4 and out[i - 4] == '[':
                # ... or as the lower bound (a constant may be negative, which the text cannot express)
                out[i - 3] = 'kc'
                out[i - 1] = '3'          # not below the declared values 2 and 2.5
            else:
                out[i - 1:i] = ['kc', 's'] if draw(st.booleans()) else ['kc']
                j = i - 3
                if j >= 0 and out[j] not in ('[',):
                    out[j] = '0'
        name = 'phi%d' % a if a < n_assert - 1 else draw(st.sampled_from(['out', 'out', None]))
        if name is not None:
            toks += [name, '=']
        toks += out + [';']
        if name and a < n_assert - 1:
            names.append(name)
    if typed and draw(st.booleans()):
        idx = [i for i, t in enumerate(toks) if t in vs and i > 0 and toks[i - 1] not in ('float', 'input', 'output')]
        if idx:
            toks[draw(st.sampled_from(idx))] = 'obj.' + draw(st.sampled_from(['numerator', 'real', 'a', 'sentinel', 'exitcode']))
    if toks and toks[-1] == ';' and draw(st.integers(0, 3)) == 0:
        toks = toks[:-1]
    if draw(st.integers(0, 4)) == 0:
        # an integer literal in another of the spellings the lexer knows: hexadecimal, binary, digits separated by underscores
        idx = [i for i, t in enumerate(toks) if t.isdigit() and (i == 0 or toks[i - 1] not in ('int', '='))]
        if idx:
            i = draw(st.sampled_from(idx))
            v = int(toks[i])
            alts = [hex(v), bin(v), '0X%X' % v, '0B' + bin(v)[2:]] + (['%s_%s' % (toks[i][0], toks[i][1:]), '%s__%s' % (toks[i][0], toks[i][1:])] if len(toks[i]) > 1 else []) + \
                ['0x0__%X' % v, '0b0__' + bin(v)[2:]]
            toks[i] = draw(st.sampled_from(alts))
    # odd layouts of the whole text
    lay = draw(st.integers(0, 11))
    if lay == 0:
        toks = toks + ['\n']
    elif lay == 1:
        toks = ['// header\n'] + toks
    # a file of this generator is derivable from the grammar and its names are declared: parse() has to accept it, unless it
    # imports a type (the module or the type may not exist) or gives a constant a value that is not a finite number
    well_formed = typed is None and all(c[2] in ('2', '2.5') for c in consts)
    return {'tokens': toks, 'declare': declare, 'consts': consts, 'well_formed': well_formed}


@st.composite
def mutated(draw, tier):
    c = draw(spec_files(tier))
    toks = list(c['tokens'])
    k = draw(st.integers(1, 3))
    kinds = []
    for _ in range(k):
        if not toks:
            break
        kind = draw(st.sampled_from(['delete', 'dup', 'swap', 'replace', 'truncate', 'junk', 'junk-in-token', 'trail', 'swap-bounds',
                                     'weird-literal', 'undeclared-bound', 'undeclared-id', 'dotted', 'unit', 'unless-plain', 'paren', 'huge-bound', 'nothing-left', 'junk-at-end']))
        i = draw(st.integers(0, len(toks) - 1))
        kinds.append(kind)
        if kind == 'delete':
            del toks[i]
        elif kind == 'dup':
            toks.insert(i, toks[i])
        elif kind == 'swap' and i + 1 < len(toks):
            toks[i], toks[i + 1] = toks[i + 1], toks[i]
        elif kind == 'replace':
            toks[i] = draw(st.sampled_from(VOCAB))
        elif kind == 'truncate':
            toks = toks[:i]
        elif kind == 'junk':
            toks.insert(i, draw(st.sampled_from(JUNK)))
        elif kind == 'junk-at-end':
            toks = toks + [draw(st.sampled_from(JUNK))]
        elif kind == 'junk-in-token':
            toks[i] = toks[i] + draw(st.sampled_from(JUNK))
        elif kind == 'trail':
            toks += [draw(st.sampled_from(VOCAB)) for _ in range(draw(st.integers(1, 3)))]
        elif kind == 'swap-bounds':
            for j, t in enumerate(toks):
                if t == '[' and j + 3 < len(toks):
                    toks[j + 1], toks[j + 3] = draw(st.sampled_from(['3', '5', '2.5', '1e400', '9' * 310, '1e309'])), draw(st.sampled_from(['0', '1', '2']))
                    break
        elif kind == 'huge-bound':
            # a literal of extreme magnitude as the upper bound (or both bounds) of an interval
            for j, t in enumerate(toks):
                if t == '[' and j + 3 < len(toks):
                    big = draw(st.sampled_from(['1e5000', '1e400', '1e4299', '1e4301', '9' * 4400, '1e-5000', '0.' + '0' * 4400 + '1', '1e999', '1E+5000']))
                    toks[j + 3] = big
                    if draw(st.integers(0, 3)) == 0:
                        toks[j + 1] = big
                    break
        elif kind == 'nothing-left':
            # the empty text, white space only, a comment only
            toks = draw(st.sampled_from([[], [' '], ['\n'], ['// nothing\n'], ['/* nothing */'], ['\t', '\n']]))
        elif kind == 'weird-literal':
            toks[i] = draw(st.sampled_from(['0x1F', '0b101', '1_000', '3.', '.5', '1e3', '1E-2', '007', '1e', '0x', '9' * 25, '1e400', '0x' + 'F' * 256, '0b' + '1' * 1100, '9' * 400, '1__0.5']))
        elif kind == 'undeclared-bound':
            for j, t in enumerate(toks):
                if t == '[' and j + 3 < len(toks):
                    toks[j + draw(st.sampled_from([1, 3]))] = draw(st.sampled_from(['nobound', 'x', 'kc']))
                    break
        elif kind == 'undeclared-id':
            toks[i] = draw(st.sampled_from(['newvar', 'q1', 'out', 'phi0', 'float', 'spec_1']))
        elif kind == 'dotted':
            toks[i] = draw(st.sampled_from(['x.y', 'newvar.f', 'a/b', 'x.', 'x..y', 'out.v']))
        elif kind == 'unit':
            for j, t in enumerate(toks):
                if t == ']':
                    toks.insert(j - draw(st.sampled_from([0, 2])), draw(st.sampled_from(['s', 'ms', 'us', 'ns', 'ps', 'm'])))
                    break
        elif kind == 'unless-plain':
            toks[i:i + 1] = ['unless'] if draw(st.booleans()) else ['W', '[', '0', ',', '1', ']']
        elif kind == 'paren':
            toks.insert(i, draw(st.sampled_from(['(', ')', '[', ']'])))
    c['tokens'] = toks
    c['mutations'] = kinds
    c['well_formed'] = False
    return c


@st.composite
def soup(draw, tier):
    n = draw(st.integers(1, 40 if tier == 'quick' else 80))
    pool = VOCAB + JUNK + ['x', 'y', '(', ')', '[', ']', ',', ';', '=', 'out']
    toks = [draw(st.sampled_from(pool)) for _ in range(n)]
    return {'tokens': toks, 'declare': draw(st.sampled_from([[], ['x'], ['x', 'y']])), 'consts': []}


def walk(node, seen=None):
    if seen is None:
        seen = set()
    if id(node) in seen:
        return
    seen.add(id(node))
    yield node
    for c in getattr(node, 'children', []) or []:
        for x in walk(c, seen):
            yield x


def join(tokens, sep=' '):
    return sep.join(tokens)


def check(case):
    text = case.get('text')
    if text is None:
        text = join(case['tokens'], case.get('sep', ' '))
    labels = []
    for m in case.get('mutations', []):
        labels.append('mut:' + m)
    ntok = len(lang.tokenize(text)[0])
    if ntok > 400:
        return DISCARD('too-long', labels)
    desc = 'text: %r\ndeclared via API: %s consts: %s' % (text, case['declare'], case['consts'])
    old = signal.signal(signal.SIGALRM, _alarm)
    signal.alarm(20)
    try:
        try:
            spec = make_spec('dt_off')
            for v in case['declare']:
                spec.declare_var(v, 'float')
            for c in case['consts']:
                spec.declare_const(c[0], c[1], c[2])
            spec.spec = text
        except Exception as e:  # noqa
            return DISCARD('setup:' + type(e).__name__, labels)
        with Captured() as cap:
            try:
                spec.parse()
                res = ('ok',)
            except _Timeout:
                return DISCARD('timeout', labels + ['TIMEOUT'])
            except RecursionError:
                return DISCARD('recursion', labels)
            except Exception as e:  # noqa
                res = exc_outcome(e)
            except SystemExit as e:
                res = ('exc', 'SystemExit', False, 'parse() called sys.exit(%r)' % (e.code,), 'syntax/ast/parser/abstract_ast_parser.py:create_var_from_name')
        acc, toks, illegal = lang.accepts(text)
        if res[0] != 'ok':
            if not res[2]:
                return FAIL('parse-raises:%s@%s' % (res[1], res[4]), desc + '\nparse() raised %s (not RTAMTException): %s at %s' % (res[1], res[3], res[4]), labels)
            msg = res[3]
            first = ('1:0:' in msg)
            labels.append('rejected')
            if acc and not illegal:
                labels.append('rejected-though-grammatical')
                if case.get('well_formed'):
                    return FAIL('rejected-well-formed:' + ' '.join('N' if any(ch.isdigit() for ch in wd) else wd for wd in msg.split(':')[-1].split())[:40], desc + '\nparse() rejected a text that is derivable from the grammar and declares its names: %s' % msg, labels)
            return PASS(not first, labels)
        labels.append('accepted')
        if illegal or 'token recognition error' in cap.text:
            return FAIL('accepted-with-illegal-characters', desc + '\nparse() succeeded although the lexer skipped %s\nstderr: %s' % (
                illegal[:5], cap.text[:200]), labels)
        if not acc:
            return FAIL('accepted-ungrammatical', desc + '\nparse() succeeded but the text is not derivable from the grammar (independent recogniser)', labels)
        # intervals and bound constants
        ast = spec.ast
        const_names = set(ast.const_val_dict.keys())
        for parts in lang.intervals(toks):
            for part in parts:
                if part and part[0][0] == 'Identifier' and part[0][1] not in const_names:
                    return FAIL('accepted-undeclared-bound', desc + '\nbound identifier %r is not a declared constant' % part[0][1], labels)
        ntemp = 0
        huge = False
        for root in ast.specs:
            for node in walk(root):
                if hasattr(node, 'begin') and hasattr(node, 'end'):
                    bu = node.begin_unit or node.end_unit or ast.unit
                    eu = node.end_unit or node.begin_unit or ast.unit
                    if bu == 'default':
                        bu = ast.unit
                    if eu == 'default':
                        eu = ast.unit
                    try:
                        b = Fraction(node.begin) * U[bu]
                        e = Fraction(node.end) * U[eu]
                    except Exception:
                        continue
                    if e > 10 ** 6 * U['s']:
                        huge = True        # more than a million default sampling periods
                    if not (0 <= b <= e):
                        return FAIL('accepted-bad-interval', desc + '\ninterval [%s%s,%s%s] accepted (needs 0 <= begin <= end)' % (
                            node.begin, node.begin_unit, node.end, node.end_unit), labels)
                if type(node).__name__ in ('Always', 'Eventually', 'Once', 'Historically', 'Since', 'Until', 'Previous', 'Next',
                                           'StrongPrevious', 'StrongNext', 'Rise', 'Fall') or hasattr(node, 'begin'):
                    ntemp += 1
        # first evaluation (step (v) is about exception types, not about resources: windows of more than 10^6 samples,
        # a time-out and an exhausted memory limit are inconclusive)
        if huge:
            return PASS(ntemp >= 1, labels + ['huge-bound:evaluate-skipped'])
        if any(getattr(node, 'field', None) for root in ast.specs for node in walk(root)):
            # fields of object-valued variables: the 4-sample data set below holds plain numbers (objects are C17's lane struct)
            return PASS(ntemp >= 1, labels + ['object-field:evaluate-skipped'])
        names = set()
        for root in ast.specs:
            for node in walk(root):
                if type(node).__name__ == 'Variable':
                    names.add(node.var)
        ds = {'time': [0.0, 1.0, 2.0, 3.0]}
        for i, v in enumerate(sorted(names)):
            ds[v] = [1.0 + i, 2.5, 0.5 + i, 3.0]
        try:
            spec.evaluate(ds)
        except _Timeout:
            return DISCARD('timeout', labels + ['TIMEOUT'])
        except MemoryError:
            return DISCARD('memory-limit', labels + ['MEMORY'])
        except (ZeroDivisionError, OverflowError):
            return DISCARD('data-fault', labels)
        except ValueError as e:
            if 'math domain' in str(e) or 'math range' in str(e):
                return DISCARD('data-fault', labels)
            o = exc_outcome(e)
            return FAIL('evaluate-raises:%s@%s' % (o[1], o[4]), desc + '\nfirst evaluate() raised %s: %s at %s' % (o[1], o[3], o[4]), labels)
        except RecursionError:
            return DISCARD('recursion', labels)
        except Exception as e:  # noqa
            o = exc_outcome(e)
            if not o[2]:
                return FAIL('evaluate-raises:%s@%s' % (o[1], o[4]), desc + '\nfirst evaluate() raised %s (not RTAMTException): %s at %s' % (o[1], o[3], o[4]), labels)
            labels.append('evaluate-rejected')
        return PASS(ntemp >= 1, labels)
    finally:
        signal.alarm(0)
        signal.signal(signal.SIGALRM, old)


def candidates(case):
    if case.get('text') is not None:
        t = case['text']
        for i in range(len(t)):
            c = dict(case)
            c['text'] = t[:i] + t[i + 1:]
            yield c
        return
    toks = case['tokens']
    n = len(toks)
    # drop chunks, then single tokens
    for size in (8, 4, 2, 1):
        for i in range(0, n - size + 1):
            c = dict(case)
            c['tokens'] = toks[:i] + toks[i + size:]
            yield c
    for i, v in enumerate(case['declare']):
        c = dict(case)
        c['declare'] = case['declare'][:i] + case['declare'][i + 1:]
        yield c
    if case['consts']:
        c = dict(case)
        c['consts'] = []
        yield c


def atheris_lane(tier, seed, shard=0, nshards=1):
    """Coverage-guided campaign (atheris/libFuzzer) over token sequences with the same oracle inside the target
    (vlib/fuzz_c14.py); empty start corpus, -seed derived from VERIF_SEED and the shard.  If atheris is not importable
    the lane reports zero executions (the three generated lanes above do not depend on it)."""
    import json
    import os
    import shutil
    import subprocess
    import sys
    from ..runner import ROOT, Stats, derive_seed
    stats = Stats()
    runs = 2500 if tier == 'quick' else 40000
    work = os.path.join(ROOT, '.work', 'c14-atheris-%d-%d-%d' % (seed, shard, os.getpid()))
    shutil.rmtree(work, ignore_errors=True)
    os.makedirs(os.path.join(work, 'corpus'))
    out = os.path.join(work, 'out.json')
    env = dict(os.environ)
    env['PYTHONPATH'] = os.pathsep.join([os.environ.get('VERIF_REPO', '/repo'), ROOT, os.path.join(ROOT, '.deps')])
    fails = []
    try:
        try:
            p = subprocess.run([sys.executable, '-m', 'vlib.fuzz_c14', out, os.path.join(work, 'corpus'), '-runs=%d' % runs,
                                '-seed=%d' % (1 + derive_seed(seed, 'C14', 'atheris', shard) % 100000), '-max_len=160'],
                               cwd=ROOT, env=env, capture_output=True, text=True, timeout=3000)
        except subprocess.TimeoutExpired:
            return stats.export(), []
        n = 0
        if os.path.exists(out + '.count'):
            n = json.load(open(out + '.count')).get('n', 0)
        if p.returncode == 77 and os.path.exists(out):
            rec = json.load(open(out))
            n = rec.get('executions', n)
            fails.append({'lane': 'atheris', 'key': rec['key'], 'detail': rec['detail'], 'case': rec['case'], 'shrink_evals': 0})
        elif p.returncode == 0:
            n = max(n, runs)
        elif 'No module named' in (p.stderr or '') and 'atheris' in p.stderr:
            n = 0
        elif p.returncode != 0:
            # an uncaught exception inside the target other than our own exit: report the tail as a failure of its own bucket
            fails.append({'lane': 'atheris', 'key': 'fuzz-target-crash', 'detail': (p.stderr or '')[-1500:],
                          'case': {'tokens': [], 'declare': [], 'consts': []}, 'shrink_evals': 0})
        stats.evaluations = n
        stats.labels['atheris-executions'] = n
    finally:
        shutil.rmtree(work, ignore_errors=True)
    return stats.export(), fails


LANES = [
    Lane('atheris', None, check, 0, 1, candidates, custom=atheris_lane, shards=8),     # thorough tier only
    Lane('grammar', lambda tier: spec_files(tier), check, 3000, 60000, candidates),
    Lane('mutated', lambda tier: mutated(tier), check, 12000, 300000, candidates),
    Lane('soup', lambda tier: soup(tier), check, 6000, 150000, candidates),
]
