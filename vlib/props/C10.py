"""C10 - reset() returns an online monitor to its initial state."""
import copy
from fractions import Fraction

from hypothesis import strategies as st

from .. import formula as F
from ..common import feature_labels
from ..dense import grid_signal, to_time
from ..formula import from_json
from ..modular import Q, decomposed, build_modular, mod_candidates
from ..monitors import exc_outcome
from ..refsem import same
from ..runner import Lane, PASS, FAIL, DISCARD
from .C09 import describe

PROPERTY = 'C10'

RULE = ('Generated call histories (the whole history is one shrinkable value): an online monitor (discrete online, discrete online after '
        'pastify, dense online; with or without sub-specifications/constants via the decompositions of C09) receives a sequence of '
        'update(sample or batch) and reset() operations; reset() may be the first operation (also before pastify(): parse, reset, pastify, then the history). A shadow monitor is constructed fresh '
        '(parse, pastify) at every reset and fed the same post-reset inputs. Oracle: after every update the real output equals the '
        'shadow output, and (discrete) sampling_violation_counter is equal after every operation; the first time stamp after a reset '
        'is arbitrary (a gap that would be counted if previous_time survived). A quarter of the histories contain an operation that raises on some data (division by a signal reaching 0, root of a negative sample): '
        'such an update() is followed by reset(); a quarter of the discrete histories change the sampling period on the live object (set_sampling_period, then reset()) and the shadow is built with the new period; a quarter of the remaining plain discrete histories run at a 1 ms period and switch the default unit between s and ms on the live object (spec.unit = ..., then reset(); bare bounds then mean thousands of samples or a few). Non-trivial = a reset after >= 2 updates of a formula '
        'with a stateful operator, followed by >= 2 updates; distinct = distinct (specification, history) digests.')

ASSUMPTIONS = [
    'dense time: the input after a reset restarts at time 0 (a fresh monitor is documented for signals starting at 0)',
    'a history in which the fresh shadow raises is discarded (C17)',
]

KINDS = ('dt_on', 'dt_on_past', 'ct_on')
FAULT_VAR = 'zz'


@st.composite
def histories(draw, tier, kind):
    c = draw(decomposed(kind, tier))
    c.pop('trace', None)
    c.pop('signals', None)
    fault = draw(st.integers(0, 3)) == 0
    if fault:
        # an operation that raises on some data (division by a signal that reaches 0, root of a negative signal): an
        # update() that fails half-way is followed by reset()
        z = ('var', FAULT_VAR)
        term = ('bin', '/', ('const', 2.0), z) if draw(st.booleans()) else ('un', 'sqrt', z)
        guard = ('pred', draw(st.sampled_from(['>=', '<='])), term, ('const', draw(st.sampled_from([0.5, 1.0, 4.0]))))
        f = from_json(c['formula'])
        c['formula'] = ('bin', draw(st.sampled_from(['and', 'or', 'implies'])), f, guard)
        c['vars'] = list(c['vars']) + [FAULT_VAR]
        c['fault_value'] = 0.0 if term[0] == 'bin' else -1.0
    vs = c['vars']
    good = st.sampled_from([0.5, 1.0, 2.0, 4.0])
    nops = draw(st.integers(2, 14 if tier == 'quick' else 30))
    ops = []
    nres = 0
    reconf = kind.startswith('dt') and draw(st.integers(0, 3)) == 0
    # the default unit is changed on the live object (spec.unit = ..., no parse()): with a sampling period of 1 ms the bare
    # bounds are whole numbers of samples under the unit s (thousands of samples) and under the unit ms
    # (bounded since costs rtamt time quadratic in the window: left out of these histories)
    unitconf = kind == 'dt_on' and not reconf and draw(st.integers(0, 3)) == 0 and not any(x[0] == 'tbin' for x in F.subterms(from_json(c['formula'])))
    unit = draw(st.sampled_from(['s', 'ms'])) if unitconf else None
    if unitconf:
        c['unit'] = unit
    for i in range(nops):
        r = draw(st.integers(0, 9))
        if fault and r == 2 and kind.startswith('dt'):
            vals = {v: draw(F.values()) for v in vs}
            vals[FAULT_VAR] = c['fault_value']
            ops.append(['update', draw(st.sampled_from([16, 16, 17, 20])), vals, 'bad'])
            ops.append(['reset'])
            nres += 1
        elif reconf and r == 3:
            # the sampling period is changed on the live object; it takes effect with the reset() that follows
            ops.append(['period', draw(st.sampled_from([[1, 's'], [500, 'ms'], [250, 'ms'], [1000, 'ms']]))])
            ops.append(['reset'])
            nres += 1
        elif unitconf and r == 3:
            unit = 'ms' if unit == 's' else 's'
            ops.append(['unit', unit])
            ops.append(['reset'])
            nres += 1
        elif r == 0 or (i == 0 and r == 1) or (r == 1 and nres < 3 and i > 2):
            ops.append(['reset'])
            nres += 1
        elif kind.startswith('dt'):
            gap16 = draw(st.sampled_from([16, 16, 16, 16, 17, 18, 19, 20, 24, 13, 8, 160]))   # gap in 16ths of the period
            vals = {v: draw(F.values()) for v in vs}
            if fault:
                vals[FAULT_VAR] = draw(good)
            ops.append(['update', gap16, vals])
        else:
            batch = {v: draw(grid_signal(0, max_samples=3)) for v in vs}
            bad = fault and r == 2
            if fault:
                batch[FAULT_VAR] = [[k, draw(good)] for k, _ in batch[FAULT_VAR]]
                if bad:
                    batch[FAULT_VAR][-1][1] = c['fault_value']
            ops.append(['update', batch] + (['bad'] if bad else []))
            if bad:
                ops.append(['reset'])
                nres += 1
    c['ops'] = ops
    c['late_pastify'] = kind == 'dt_on_past' and draw(st.integers(0, 3)) == 0
    if kind == 'dt_on' and not unitconf and not fault and draw(st.integers(0, 4)) == 0:
        c['combined'] = True
        c['offline_before'] = True
    if unitconf:
        c['sampling'] = [1, 'ms', draw(st.sampled_from([0.1, 0.25]))]
    elif kind.startswith('dt') and draw(st.booleans()):
        # an explicitly configured tolerance (the period stays 1 s so that bounds written in samples stay valid)
        c['sampling'] = [1, 's', draw(st.sampled_from([0.0, 0.05, 0.2, 0.25, 0.5, 1.0]))]
    return c


class Runner(object):
    """Feeds update operations to a monitor, keeping the running time."""

    def __init__(self, case, spec):
        self.case = case
        self.spec = spec
        self.kind = case['kind']
        f = from_json(case['formula'])
        self.used = [v for v in case['vars'] if v in F.fvars(f)]
        self.t16 = None       # discrete: time in 16ths
        self.base = 0         # dense: offset in cells of the next batch

    def update(self, op, t=None):
        if self.kind.startswith('dt'):
            return self.spec.update(t, [(v, float(op[2][v])) for v in self.used])
        batch = {}
        length = 0
        for v in self.used:
            s = [(int(k) + self.base, float(x)) for k, x in op[1][v]]
            batch[v] = s
        sig = to_time(batch, Q)
        # every variable's batch starts at the current offset; the next batch starts after the longest one
        length = max(int(op[1][v][-1][0]) for v in self.used) + 1
        out = self.spec.update(*[[v, sig[v]] for v in self.used])
        self.base += length
        return out


def check(case):
    kind = case['kind']
    f = from_json(case['formula'])
    labels = ['kind:' + kind, 'subs:%d' % len(case['subs'])] + feature_labels(f)
    if not F.fvars(f):
        return DISCARD('no-variable', labels)
    if kind == 'dt_on_past' and F.horizon(f) is None:
        return DISCARD('unbounded', labels)
    cfg = {'sampling': case.get('sampling'), 'period_s': Fraction(1), 'unit': case.get('unit')}
    if case.get('unit'):
        cfg['period_s'] = Fraction(1, 1000)
    unit_s = {'s': Fraction(1), 'ms': Fraction(1, 1000), None: Fraction(1)}

    def fresh():
        spec = build_modular(dict(case, unit=cfg['unit']))
        if cfg['sampling']:
            spec.set_sampling_period(*cfg['sampling'])
        return spec
    try:
        if case.get('late_pastify') and kind == 'dt_on_past':
            # the monitor under test is reset before it is pastified: parse(); reset(); pastify(); then the history
            spec0 = build_modular(dict(case, kind='dt_on', unit=cfg['unit']))
            if cfg['sampling']:
                spec0.set_sampling_period(*cfg['sampling'])
            labels.append('reset-before-pastify')
            try:
                spec0.reset()
            except Exception:  # noqa
                pass          # a specification with future operators may be rejected here (C17); pastify() follows
            spec0.pastify()
            real = Runner(case, spec0)
        else:
            real = Runner(case, fresh())
            if case.get('offline_before') and kind == 'dt_on':
                # the combined class: the object was used as an offline monitor (on a time column with irregular gaps)
                # before; the history then starts with reset()
                labels.append('evaluate-before-reset')
                used_ = real.used
                real.spec.evaluate(dict([('time', [0.0, 1.0, 5.0, 6.0])] + [(v, [1.0, 2.0, 0.5, 3.0]) for v in used_]))
                real.spec.reset()
        shadow = Runner(case, fresh())
    except Exception as e:  # noqa
        return DISCARD('build-raises(C14/C17):' + type(e).__name__, labels)
    desc = describe(dict(case, trace=None)) + '\nsampling configuration: %s\nhistory: %s' % (case.get('sampling'), case['ops'])
    t = Fraction(0)
    dirty = False           # an update() raised: nothing is demanded until the next reset()
    failed_updates = 0
    reconfigured = 0
    updates_since_reset = 0
    updates_before_reset = 0
    resets = 0
    good_resets = 0
    log = []
    for idx, op in enumerate(case['ops']):
        if op[0] == 'period':
            tol = cfg['sampling'][2] if cfg['sampling'] else 0.1
            cfg['sampling'] = [op[1][0], op[1][1], tol]
            cfg['period_s'] = Fraction(op[1][0]) * {'s': 1, 'ms': Fraction(1, 1000)}[op[1][1]]
            try:
                real.spec.set_sampling_period(*cfg['sampling'])
            except Exception as e:  # noqa
                return DISCARD('set_sampling_period-raises:' + type(e).__name__, labels)
            dirty = True      # takes effect with the next reset()
            reconfigured += 1
            log.append('period %s' % (op[1],))
            continue
        if op[0] == 'unit':
            cfg['unit'] = op[1]
            real.spec.unit = op[1]
            dirty = True      # takes effect with the next reset()
            reconfigured += 1
            log.append('unit %s' % op[1])
            continue
        if op[0] == 'reset':
            try:
                real.spec.reset()
            except Exception as e:  # noqa
                o = exc_outcome(e)
                return FAIL('reset-raises:%s:%s%s' % (kind, o[1], ':first' if idx == 0 else ''),
                            desc + '\noperation %d: reset() raised %s: %s at %s' % (idx, o[1], o[3], o[4]), labels)
            try:
                shadow = Runner(case, fresh())
            except Exception as e:  # noqa
                return DISCARD('build-raises', labels)
            real.base = 0
            dirty = False
            resets += 1
            if updates_since_reset >= 2:
                updates_before_reset = updates_since_reset
            updates_since_reset = 0
            log.append('reset')
        else:
            if dirty:
                continue
            if kind.startswith('dt'):
                # the first stamp after a reset / at the start is arbitrary: jump by 10 periods
                t = t + Fraction(op[1] if updates_since_reset > 0 else 160, 16) * cfg['period_s']
            tf = float(t / unit_s[cfg['unit']])       # time stamps are expressed in the default unit
            s_exc = None
            try:
                s_out = shadow.update(op, tf)
            except Exception as e:  # noqa
                s_exc = e
            if s_exc is not None:
                if len(op) > 2 and op[-1] == 'bad':
                    # the fresh monitor fails on this input as well: the monitor under test is fed the same input, whatever
                    # it does is followed by reset()
                    try:
                        real.update(op, tf)
                    except Exception:  # noqa
                        pass
                    dirty = True
                    failed_updates += 1
                    log.append('failed update')
                    continue
                return DISCARD('shadow-raises(C17):' + type(s_exc).__name__, labels)
            try:
                r_out = real.update(op, tf)
            except Exception as e:  # noqa
                o = exc_outcome(e)
                return FAIL('update-after-reset-raises:%s:%s' % (kind, o[1]) if (resets or case.get('late_pastify')) else 'HARNESS:update-raises',
                            desc + '\noperation %d: update raised %s: %s at %s (the fresh shadow monitor returned %r)' % (idx, o[1], o[3], o[4], s_out), labels)
            updates_since_reset += 1
            if resets and updates_since_reset == 2 and updates_before_reset >= 2:
                good_resets += 1
            log.append(r_out)
            if kind.startswith('dt'):
                if isinstance(r_out, float) and r_out != r_out and isinstance(s_out, float) and s_out != s_out:
                    return DISCARD('nan', labels)       # inf - inf in both monitors (warm-up of a pastified monitor): undefined case
                ok = same(r_out, s_out, False)
            else:
                ok = r_out == s_out
            if not ok:
                return FAIL('differs-after-reset:' + kind if (resets or case.get('late_pastify')) else 'HARNESS:differs-without-reset',
                            desc + '\noperation %d (update): monitor returned %r, fresh monitor %r\noutputs so far: %s' % (idx, r_out, s_out, log), labels)
        if kind.startswith('dt'):
            rc, sc = real.spec.sampling_violation_counter, shadow.spec.sampling_violation_counter
            if rc != sc:
                return FAIL('counter-after-reset:' + kind, desc + '\nafter operation %d: sampling_violation_counter = %r, fresh monitor %r' % (idx, rc, sc), labels)
    stateful = any(o in F.STATEFUL_ONLINE for o in F.ops(f)) or kind == 'ct_on'
    if resets:
        labels.append('has-reset')
    if failed_updates:
        labels.append('failed-update-then-reset')
    if reconfigured:
        labels.append('unit-changed-then-reset' if case.get('unit') else 'period-changed-then-reset')
    return PASS(stateful and good_resets >= 1, labels)


def candidates(case):
    ops = case['ops']
    for i in range(len(ops)):
        c = dict(case)
        c['ops'] = ops[:i] + ops[i + 1:]
        yield c
    for c in mod_candidates(case):
        yield c


LANES = [Lane(k, (lambda kk: lambda tier: histories(tier, kk))(k), check, 1500, 20000, candidates) for k in KINDS]
