"""C19 - dense-time and discrete-time interpretations agree on sampled step signals."""
from fractions import Fraction

from hypothesis import strategies as st

from .. import formula as F
from ..common import std_candidates, feature_labels, fmt_vals
from ..dense import check_shape
from ..formula import Profile, from_json
from ..monitors import run_dt_off, run_ct_off
from ..refsem import same, step_at, needs_tolerance
from ..runner import Lane, PASS, FAIL, DISCARD

PROPERTY = 'C19'

RULE = ('Formulas of the C19 fragment (arithmetic, comparisons, Boolean, once/historically bounded or not, bounded eventually/always), '
        'sampling period P in {1, 0.5, 2} s, bounds multiples of P, step signals that change only at multiples of P (one sample per '
        'period for the discrete monitor; for the dense monitor either the same samples or the sparser list with repeated values removed). '
        'Oracle (differential between the two interpretations): dense offline result read at k*P == discrete offline result at sample k '
        'for every k with k + h < n (h = horizon in samples). Non-trivial = >= 1 bounded operator, n > h + 1 and the compared values are '
        'not all equal; distinct = distinct (formula, data, P, sparsity) digests.')

ASSUMPTIONS = [
    'the dense result is read as a right-continuous step function',
    'a case in which either monitor raises is discarded (C17)',
    'values compared exactly; relative tolerance 1e-9 when / sqrt exp ln log pow occur',
]

FRAG = Profile(events=(), un_temp=('once', 'historically'), bin_temp=(), tun=F.TUN_PAST + F.TUN_FUT, tbin=(), max_depth=4, max_bound=4)
PERIODS = [(Fraction(1), (1, 's')), (Fraction(1, 2), (500, 'ms')), (Fraction(2), (2, 's'))]


@st.composite
def cases(draw, tier):
    p = FRAG if tier == 'quick' else FRAG.copy(max_depth=5, max_bound=6)
    f, vs = draw(F.formulas(p))
    h = F.horizon(f) or 0
    n = h + draw(st.sampled_from([2, 2, 3, 4, 5, 6, 8]))
    # step signals with plateaus (so that the sparse dense input differs from the dense one)
    tr = {}
    for v in vs:
        xs = []
        cur = draw(F.values())
        for i in range(n):
            if draw(st.integers(0, 2)) == 0:
                cur = draw(F.values())
            xs.append(cur)
        tr[v] = xs
    return {'formula': f, 'vars': vs, 'trace': tr, 'period': draw(st.integers(0, 2)), 'sparse': draw(st.booleans())}


def check(case):
    f = from_json(case['formula'])
    vs = list(case['vars'])
    tr = {v: [float(x) for x in case['trace'][v]] for v in vs}
    n = len(tr[vs[0]])
    P, pcfg = PERIODS[case['period']]
    labels = feature_labels(f, n) + ['P:%s' % P, 'sparse' if case['sparse'] else 'full']
    used = F.fvars(f)
    if not used:
        return DISCARD('no-variable', labels)
    feed = [v for v in vs if v in used]
    w = {v: tr[v] for v in feed}
    h = F.horizon(f) or 0
    bp = F.make_scaled_bound_printer(P)
    text = 'out = ' + F.show(f, bp)
    tcol = [float(i * P) for i in range(n)]
    od = run_dt_off(text, feed, w, time=tcol, period=(pcfg[0], pcfg[1], 0.1))
    sig = {}
    for v in feed:
        s = [[tcol[i], w[v][i]] for i in range(n)]
        if case['sparse']:
            s = [s[0]] + [s[i] for i in range(1, n - 1) if s[i][1] != s[i - 1][1]] + ([s[-1]] if n > 1 else [])
        sig[v] = s
    oc = run_ct_off(text, feed, sig)
    if od[0] != 'ok' or oc[0] != 'ok':
        bad = od if od[0] != 'ok' else oc
        return DISCARD('raises(C17):' + bad[1], labels)
    if check_shape(oc[1]):
        return DISCARD('dense-shape(C04)', labels)
    dvals = [p[1] for p in od[1]]
    tol = needs_tolerance(f)
    ks = [k for k in range(n) if k + h < n]
    cvals = [step_at(oc[1], tcol[k]) for k in ks]
    desc = 'spec: %s   (P = %s s, horizon %d samples)\ndiscrete trace: %s\ndense signals: %s' % (text, P, h, w, sig)
    for k, c in zip(ks, cvals):
        if c is None or not same(c, dvals[k], tol):
            return FAIL('interpretations-differ:' + attribute(f, feed, w, n, P, pcfg, case['sparse']),
                        desc + '\ndiscrete: %s\ndense at k*P: %s\nfirst difference at sample %d (t=%g): discrete %r, dense %r\ndense result: %r' % (
                            fmt_vals(dvals), cvals, k, tcol[k], dvals[k], c, oc[1]), labels)
    bounded = any(s[0] == 'tun' for s in F.subterms(f))
    return PASS(bounded and n > h + 1 and len(set(dvals[k] for k in ks)) > 1, labels)


def attribute(f, feed, w, n, P, pcfg, sparse):
    for s in sorted(set(F.subterms(f)), key=F.size):
        if s[0] in ('var', 'const') or not F.fvars(s):
            continue
        c = {'formula': s, 'vars': feed, 'trace': w, 'period': [i for i, x in enumerate(PERIODS) if x[0] == P][0], 'sparse': sparse}
        v = _plain(c)
        if v:
            return F.op_of(s)
    return 'nested'


def _plain(case):
    """True if the case fails (used for attribution only)."""
    f = from_json(case['formula'])
    feed = [v for v in case['vars'] if v in F.fvars(f)]
    w = {v: case['trace'][v] for v in feed}
    n = len(w[feed[0]])
    P, pcfg = PERIODS[case['period']]
    h = F.horizon(f) or 0
    text = 'out = ' + F.show(f, F.make_scaled_bound_printer(P))
    tcol = [float(i * P) for i in range(n)]
    od = run_dt_off(text, feed, w, time=tcol, period=(pcfg[0], pcfg[1], 0.1))
    sig = {v: [[tcol[i], w[v][i]] for i in range(n)] for v in feed}
    oc = run_ct_off(text, feed, sig)
    if od[0] != 'ok' or oc[0] != 'ok':
        return False
    for k in range(n):
        if k + h < n:
            c = step_at(oc[1], tcol[k])
            if c is None or not same(c, od[1][k][1], needs_tolerance(f)):
                return True
    return False


LANES = [
    Lane('main', lambda tier: cases(tier), check, 5000, 80000, std_candidates),
]
