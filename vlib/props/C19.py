"""C19 - dense-time and discrete-time interpretations agree on sampled step signals."""
from fractions import Fraction

from hypothesis import strategies as st

from .. import formula as F
from ..common import std_candidates, feature_labels, fmt_vals
from ..dense import check_shape
from ..formula import Profile, from_json
from ..monitors import run_dt_off, run_ct_off, run_dt_on, run_ct_on
from ..refsem import same, step_at, needs_tolerance
from ..runner import Lane, PASS, FAIL, DISCARD

PROPERTY = 'C19'

RULE = ('Formulas of the C19 fragment (arithmetic, comparisons, Boolean, once/historically bounded or not, bounded eventually/always), '
        'sampling period P in {1, 0.5, 2, 0.25, 4, 3} s, bounds multiples of P, step signals that change only at multiples of P (one sample per '
        'period for the discrete monitor; for the dense monitor either the same samples or the sparser list with repeated values removed). '
        'Oracle (differential between the two interpretations): dense offline result read at k*P == discrete offline result at sample k '
        'for every k with k + h < n (h = horizon in samples). Lane wide: windows of up to 12 periods on traces of up to h + 24 samples made of '
        'long monotone runs with a few breaks, ties and plateaus. Lane bigint: integer samples of the order of 1.7e18 (small differences compared with constants) in both interpretations and against a reference in exact integer arithmetic. Lane giant: windows of 200..1100 periods (around 256, 512, 1024) on mostly flat traces with isolated extreme samples. Lane units: the default unit is s, ms or us, the period is 1, 1/2 or 2 default units (written in any unit), the bounds '
        'are spelled with explicit units or bare (machinery of C08) and the time stamps are in the default unit. Lane online: past fragment, or bounded-future fragment after pastify() on both '
        'sides; the dense-time online monitor (fed everything at once, one sample per update, or in random pieces) read at k*P wherever its output '
        'covers == the k-th update of the discrete-time online monitor (from update h on after pastify). Non-trivial = >= 1 bounded operator, '
        'n > h + 1 and the compared values are not all equal; distinct = distinct (formula, data, P, sparsity / unit / schedule) digests.')

ASSUMPTIONS = [
    'the dense result is read as a right-continuous step function',
    'a case in which either monitor raises is discarded (C17)',
    'values compared exactly; relative tolerance 1e-9 when / sqrt exp ln log pow occur',
    'online lane: the dense-time online output covers the interval between its first and last time stamp (as in C05)',
]

FRAG = Profile(events=(), un_temp=('once', 'historically'), bin_temp=(), tun=F.TUN_PAST + F.TUN_FUT, tbin=(), max_depth=4, max_bound=4)
FRAG_PAST = FRAG.copy(tun=F.TUN_PAST)
PERIODS = [(Fraction(1), (1, 's')), (Fraction(1, 2), (500, 'ms')), (Fraction(2), (2, 's')),
           (Fraction(1, 4), (250, 'ms')), (Fraction(4), (4, 's')), (Fraction(3), (3000, 'ms'))]


@st.composite
def plateau_trace(draw, vs, n):
    """step signals with plateaus (so that the sparse dense input differs from the full one)"""
    tr = {}
    for v in vs:
        xs = []
        cur = draw(F.values())
        for i in range(n):
            if draw(st.integers(0, 2)) == 0:
                cur = draw(F.values())
            xs.append(cur)
        tr[v] = xs
    return tr


@st.composite
def staircase_trace(draw, vs, n):
    """long monotone runs with a few breaks, some plateaus and ties (sliding-window code needs several pops in a row)"""
    tr = {}
    for v in vs:
        pool = draw(st.sampled_from([8, 16, 40]))
        vals = sorted(draw(st.lists(st.integers(-pool, pool), min_size=n, max_size=n)), reverse=draw(st.booleans()))
        for _ in range(draw(st.integers(0, 3))):
            i = draw(st.integers(0, n - 1))
            vals[i] = draw(st.integers(-pool, pool))
        if draw(st.booleans()):
            # a second run in the opposite direction
            m = draw(st.integers(1, n))
            vals = vals[:m] + vals[m:][::-1]
        tr[v] = [x / 2.0 for x in vals]
    return tr


@st.composite
def cases(draw, tier):
    p = FRAG if tier == 'quick' else FRAG.copy(max_depth=5, max_bound=6)
    f, vs = draw(F.formulas(p))
    if draw(st.integers(0, 2)):
        f = draw(ensure_bounded(f, max_bound=p.max_bound))
    h = F.horizon(f) or 0
    n = h + draw(st.sampled_from([2, 2, 3, 4, 5, 6, 8]))
    tr = draw(plateau_trace(vs, n))
    return {'formula': f, 'vars': vs, 'trace': tr, 'period': draw(st.integers(0, len(PERIODS) - 1)), 'sparse': draw(st.booleans())}


@st.composite
def ensure_bounded(draw, f, past_only=False, max_bound=4):
    if any(s[0] == 'tun' for s in F.subterms(f)):
        return f
    ops = list(F.TUN_PAST) if past_only else list(F.TUN_PAST + F.TUN_FUT)
    b = draw(st.integers(1, max_bound))
    a = draw(st.integers(0, b))
    return ('tun', draw(st.sampled_from(ops)), a, b, f)


@st.composite
def wide_cases(draw, tier):
    p = FRAG.copy(max_depth=3, max_bound=12, nvars=2)
    f, vs = draw(F.formulas(p))
    f = draw(ensure_bounded(f, max_bound=12))
    h = F.horizon(f) or 0
    n = h + draw(st.sampled_from([2, 4, 6, 9, 12, 16, 24]))
    tr = draw(staircase_trace(vs, n)) if draw(st.integers(0, 3)) else draw(plateau_trace(vs, n))
    return {'formula': f, 'vars': vs, 'trace': tr, 'period': draw(st.integers(0, len(PERIODS) - 1)), 'sparse': draw(st.booleans())}


def sparse_signal(s):
    n = len(s)
    return [s[0]] + [s[i] for i in range(1, n - 1) if s[i][1] != s[i - 1][1]] + ([s[-1]] if n > 1 else [])


def check(case):
    f = from_json(case['formula'])
    vs = list(case['vars'])
    tr = {v: [float(x) for x in case['trace'][v]] for v in vs}
    n = len(tr[vs[0]])
    P, pcfg = PERIODS[case['period']]
    labels = feature_labels(f, n) + ['P:%s' % P, 'sparse' if case['sparse'] else 'full']
    used = F.fvars(f)
    if not used:
        return DISCARD('no-variable', labels)
    feed = [v for v in vs if v in used]
    w = {v: tr[v] for v in feed}
    h = F.horizon(f) or 0
    bp = F.make_scaled_bound_printer(P)
    text = 'out = ' + F.show(f, bp)
    tcol = [float(i * P) for i in range(n)]
    od = run_dt_off(text, feed, w, time=tcol, period=(pcfg[0], pcfg[1], 0.1))
    sig = {}
    for v in feed:
        s = [[tcol[i], w[v][i]] for i in range(n)]
        if case['sparse']:
            s = sparse_signal(s)
        sig[v] = s
    oc = run_ct_off(text, feed, sig)
    if od[0] != 'ok' or oc[0] != 'ok':
        bad = od if od[0] != 'ok' else oc
        return DISCARD('raises(C17):' + bad[1], labels)
    if check_shape(oc[1]):
        return DISCARD('dense-shape(C04)', labels)
    dvals = [p[1] for p in od[1]]
    tol = needs_tolerance(f)
    ks = [k for k in range(n) if k + h < n]
    cvals = [step_at(oc[1], tcol[k]) for k in ks]
    desc = 'spec: %s   (P = %s s, horizon %d samples)\ndiscrete trace: %s\ndense signals: %s' % (text, P, h, w, sig)
    for k, c in zip(ks, cvals):
        if c is None or not same(c, dvals[k], tol):
            return FAIL('interpretations-differ:' + attribute(f, feed, w, n, case['period'], case['sparse']),
                        desc + '\ndiscrete: %s\ndense at k*P: %s\nfirst difference at sample %d (t=%g): discrete %r, dense %r\ndense result: %r' % (
                            fmt_vals(dvals), cvals, k, tcol[k], dvals[k], c, oc[1]), labels)
    bounded = any(s[0] == 'tun' for s in F.subterms(f))
    if F.max_bound(f) >= 5:
        labels.append('window>=5')
    return PASS(bounded and n > h + 1 and len(set(dvals[k] for k in ks)) > 1, labels)


def attribute(f, feed, w, n, period, sparse):
    for s in sorted(set(F.subterms(f)), key=F.size):
        if s[0] in ('var', 'const') or not F.fvars(s):
            continue
        c = {'formula': s, 'vars': feed, 'trace': w, 'period': period, 'sparse': sparse}
        v = _plain(c)
        if v:
            return F.op_of(s)
    return 'nested'


def _plain(case):
    """True if the case fails (used for attribution only)."""
    f = from_json(case['formula'])
    feed = [v for v in case['vars'] if v in F.fvars(f)]
    w = {v: case['trace'][v] for v in feed}
    n = len(w[feed[0]])
    P, pcfg = PERIODS[case['period']]
    h = F.horizon(f) or 0
    text = 'out = ' + F.show(f, F.make_scaled_bound_printer(P))
    tcol = [float(i * P) for i in range(n)]
    od = run_dt_off(text, feed, w, time=tcol, period=(pcfg[0], pcfg[1], 0.1))
    sig = {v: [[tcol[i], w[v][i]] for i in range(n)] for v in feed}
    oc = run_ct_off(text, feed, sig)
    if od[0] != 'ok' or oc[0] != 'ok':
        return False
    for k in range(n):
        if k + h < n:
            c = step_at(oc[1], tcol[k])
            if c is None or not same(c, od[1][k][1], needs_tolerance(f)):
                return True
    return False


# ---- units lane ---------------------------------------------------------------

UNIT_NS = {'s': 10 ** 9, 'ms': 10 ** 6, 'us': 10 ** 3, 'ns': 1}
# period as a multiple of the default unit (exact binary floats in that unit)
UNIT_PERIODS = [Fraction(1), Fraction(1, 2), Fraction(2)]


@st.composite
def unit_cases(draw, tier):
    p = FRAG.copy(max_depth=3, max_bound=5)
    f, vs = draw(F.formulas(p))
    f = draw(ensure_bounded(f))
    h = F.horizon(f) or 0
    n = h + draw(st.sampled_from([2, 3, 4, 6, 8]))
    tr = draw(plateau_trace(vs, n))
    return {'formula': f, 'vars': vs, 'trace': tr, 'unit': draw(st.sampled_from(['s', 'ms', 'us'])),
            'period': draw(st.integers(0, len(UNIT_PERIODS) - 1)), 'period_unit': draw(st.integers(0, 3)),
            'choices': draw(st.lists(st.integers(0, 11), min_size=12, max_size=12)),
            'uniform': draw(st.sampled_from([None, None, 's', 'ms', 'us', 'ns'])), 'sparse': draw(st.booleans())}


def check_units(case):
    from .C08 import Speller, spellings
    f = from_json(case['formula'])
    vs = list(case['vars'])
    tr = {v: [float(x) for x in case['trace'][v]] for v in vs}
    n = len(tr[vs[0]])
    du = case['unit']
    P = UNIT_PERIODS[case['period']]               # in default units
    period_ns = int(P * UNIT_NS[du])
    labels = feature_labels(f, n) + ['unit:' + du, 'P:%s' % P]
    used = F.fvars(f)
    if not used:
        return DISCARD('no-variable', labels)
    feed = [v for v in vs if v in used]
    w = {v: tr[v] for v in feed}
    h = F.horizon(f) or 0
    # the sampling period written in any unit in which it is a whole number
    alts = [(t, u) for (t, u) in spellings(1, period_ns, None) if '.' not in t]
    pt, pu = alts[case['period_unit'] % len(alts)]
    try:
        text = 'out = ' + F.show(f, Speller(period_ns, du, case['choices'], case.get('uniform')))
    except (AssertionError, TypeError, ZeroDivisionError):
        return DISCARD('unprintable', labels)
    tcol = [float(i * P) for i in range(n)]
    od = run_dt_off(text, feed, w, time=tcol, unit=du, period=(int(pt), pu, 0.1))
    sig = {}
    for v in feed:
        s = [[tcol[i], w[v][i]] for i in range(n)]
        sig[v] = sparse_signal(s) if case['sparse'] else s
    oc = run_ct_off(text, feed, sig, unit=du)
    if od[0] != 'ok' or oc[0] != 'ok':
        bad = od if od[0] != 'ok' else oc
        return DISCARD('raises(C17/C08):' + bad[1], labels)
    if check_shape(oc[1]):
        return DISCARD('dense-shape(C04)', labels)
    dvals = [p[1] for p in od[1]]
    tol = needs_tolerance(f)
    ks = [k for k in range(n) if k + h < n]
    desc = 'spec: %s   (default unit %s, sampling period %s%s, horizon %d samples)\ndiscrete trace: %s\ntime column: %s\ndense signals: %s' % (
        text, du, pt, pu, h, w, tcol, sig)
    for k in ks:
        c = step_at(oc[1], tcol[k])
        if c is None or not same(c, dvals[k], tol):
            return FAIL('interpretations-differ:units', desc + '\ndiscrete: %s\nfirst difference at sample %d (t=%g %s): discrete %r, dense %r\ndense result: %r' % (
                fmt_vals(dvals), k, tcol[k], du, dvals[k], c, oc[1]), labels)
    return PASS(n > h + 1 and len(set(dvals[k] for k in ks)) > 1 and any(u in text for u in ('s]', 's,', 's:')), labels)


# ---- online lane --------------------------------------------------------------

@st.composite
def online_cases(draw, tier):
    pastified = draw(st.booleans())
    p = (FRAG if pastified else FRAG_PAST).copy(max_depth=3 if tier == 'quick' else 4, max_bound=4)
    f, vs = draw(F.formulas(p))
    f = draw(ensure_bounded(f, past_only=not pastified))
    h = F.horizon(f) or 0
    n = h + draw(st.sampled_from([2, 3, 4, 5, 6, 8]))
    tr = draw(plateau_trace(vs, n))
    sched = draw(st.sampled_from(['whole', 'single', 'pieces']))
    cuts = sorted(set(draw(st.lists(st.integers(0, n - 1), min_size=1, max_size=4)))) if sched == 'pieces' else []
    return {'formula': f, 'vars': vs, 'trace': tr, 'period': draw(st.integers(0, len(PERIODS) - 1)), 'sparse': draw(st.booleans()),
            'pastified': pastified, 'schedule': sched, 'cuts': cuts}


def check_online(case):
    f = from_json(case['formula'])
    vs = list(case['vars'])
    tr = {v: [float(x) for x in case['trace'][v]] for v in vs}
    n = len(tr[vs[0]])
    P, pcfg = PERIODS[case['period']]
    pastified = bool(case.get('pastified'))
    labels = feature_labels(f, n) + ['P:%s' % P, 'schedule:' + case['schedule'], 'pastified' if pastified else 'past']
    used = F.fvars(f)
    if not used:
        return DISCARD('no-variable', labels)
    if F.has_future(f) and not pastified:
        return DISCARD('future-without-pastify', labels)
    feed = [v for v in vs if v in used]
    w = {v: tr[v] for v in feed}
    h = F.horizon(f) or 0
    text = 'out = ' + F.show(f, F.make_scaled_bound_printer(P))
    tcol = [float(i * P) for i in range(n)]
    od = run_dt_on(text, feed, w, time=tcol, period=(pcfg[0], pcfg[1], 0.1), pastify=pastified)
    sig = {}
    for v in feed:
        s = [[tcol[i], w[v][i]] for i in range(n)]
        sig[v] = sparse_signal(s) if case['sparse'] else s
    # schedule: cut instants common to all variables
    if case['schedule'] == 'whole':
        cuts = []
    elif case['schedule'] == 'single':
        cuts = tcol
    else:
        cuts = [tcol[i] for i in case['cuts'] if i < n]
    batches = []
    lo = -1.0
    for hi in list(cuts) + [float('inf')]:
        b = {v: [s for s in sig[v] if lo < s[0] <= hi] for v in feed}
        if any(b.values()):
            batches.append(b)
        lo = hi
    oc = run_ct_on(text, feed, batches, pastify=pastified)
    if od[0] != 'ok' or oc[0] != 'ok':
        bad = od if od[0] != 'ok' else oc
        return DISCARD('raises(C17):' + bad[1], labels)
    out = []
    for o in oc[1]:
        if isinstance(o, list):
            out.extend(o)
    if check_shape(out):
        return DISCARD('dense-shape(C05)', labels)
    if not out:
        return PASS(False, labels + ['empty-output'])
    first, last = out[0][0], out[-1][0]
    tol = needs_tolerance(f)
    desc = 'spec: %s   (P = %s s, horizon %d samples%s)\ndiscrete trace: %s\ndense batches: %s' % (
        text, P, h, ', both monitors pastified' if pastified else '', w, batches)
    ks = [k for k in range(h if pastified else 0, n) if first <= tcol[k] <= last]
    for k in ks:
        c = step_at(out, tcol[k])
        if c is None or not same(c, od[1][k], tol):
            return FAIL('online-interpretations-differ:' + ('pastified' if pastified else 'past'),
                        desc + '\ndiscrete online: %s\nfirst difference at update %d (t=%g): discrete %r, dense %r\ndense output (concatenated): %r' % (
                            fmt_vals(od[1]), k, tcol[k], od[1][k], c, out), labels)
    return PASS(len(ks) >= 2 and len(set(od[1][k] for k in ks)) > 1, labels)


@st.composite
def giant_cases_(draw, tier):
    """Windows of 200..1100 sampling periods (around 256, 512, 1024) on mostly flat traces with isolated extreme samples."""
    from ..common import giant_cases
    c = draw(giant_cases(F.TUN_PAST + F.TUN_FUT, lengths='long'))
    c['period'] = draw(st.sampled_from([0, 0, 1, 2]))
    c['sparse'] = draw(st.booleans())
    return c


def check_bigint(case, prop='C19'):
    """Integer samples beyond 2**53 in both interpretations (sampling period 1 s): dense offline at k == discrete offline
    at sample k == the reference in exact integer arithmetic, for every k with k + h < n."""
    from .. import refsem
    from ..refsem import dt, Undefined
    f = from_json(case['formula'])
    vs = list(case['vars'])
    tr = {v: [int(x) for x in case['trace'][v]] for v in vs}
    n = len(tr[vs[0]])
    labels = feature_labels(f, n) + ['integer-samples>2^53']
    h = F.horizon(f) or 0
    refsem.KEEP_INTEGERS = True
    try:
        ref = dt(f, tr, n)
    except Undefined:
        return DISCARD('undefined', labels)
    finally:
        refsem.KEEP_INTEGERS = False
    text = 'out = ' + F.show(f)
    from ..monitors import build, exc_outcome
    try:
        sd = build('dt_off', text, vs)
        od = [p[1] for p in sd.evaluate(dict([('time', list(range(n)))] + [(v, list(tr[v])) for v in vs]))]
        sc = build('ct_off', text, vs)
        oc = sc.evaluate(*[[v, [[float(i), tr[v][i]] for i in range(n)]] for v in vs])
    except Exception as e:  # noqa
        o = exc_outcome(e)
        return FAIL('exc:integer-samples:%s' % o[1], 'spec: %s\ntrace (integers): %s\nraised %s: %s at %s' % (text, tr, o[1], o[3], o[4]), labels)
    ks = [k for k in range(n) if k + h < n]
    for k in ks:
        c = step_at(oc, float(k))
        if c != ref[k] or (prop == 'C19' and od[k] != c):
            return FAIL('integer-samples:dense-differs', 'spec: %s\ntrace (Python integers): %s\nat sample %d: dense %r, discrete %r, reference (exact integer arithmetic) %r\ndense result: %r' % (
                text, tr, k, c, od[k], ref[k], oc), labels)
    return PASS(len(ks) >= 1, labels)


LANES = [
    Lane('bigint', lambda tier: __import__('vlib.common', fromlist=['bigint_cases']).bigint_cases(dense=True), check_bigint, 500, 5000, None),
    Lane('giant', giant_cases_, check, 100, 1000, None),
    Lane('main', lambda tier: cases(tier), check, 5000, 80000, std_candidates),
    Lane('wide', lambda tier: wide_cases(tier), check, 1500, 20000, std_candidates),
    Lane('units', lambda tier: unit_cases(tier), check_units, 1500, 20000, std_candidates),
    Lane('online', lambda tier: online_cases(tier), check_online, 2500, 30000, std_candidates),
]
