"""C01 - discrete-time offline robustness equals the STL quantitative semantics."""
from hypothesis import strategies as st

from .. import formula as F
from ..common import dt_cases, std_candidates, feature_labels, fmt_vals, giant_cases
from ..formula import Profile, from_json, show
from ..monitors import run_dt_off
from ..refsem import dt, Undefined, needs_tolerance, same
from ..runner import Lane, PASS, FAIL, DISCARD

PROPERTY = 'C01'

RULE = ('Typed random STL grammar (arithmetic incl. unary minus/ln/log, six comparisons, Boolean, rise/fall, '
        'prev/next/s_prev/s_next, bounded+unbounded past and future, unless) x random traces of length 1..12 '
        '(thorough 24) with dyadic values; lanes main/short/deep/bigbound/timecol and long (few large cases: 16-48 samples, bounds up to 20, up to five variables); one trace in five uses very few distinct values (zeros, ties, plateaus). Oracle: independent quadratic '
        'lane bigint: integer samples of the order of 1.7e18 (nanosecond time stamps) whose small differences are compared with constants, reference in exact integer arithmetic; lane giant: one bounded operator with a window of 200..1100 samples (around 256, 512 and 1024; lower bound 0..300; bounded since/until up to 300), alone, negated, next to its dual or under a narrow operator, on mostly flat traces with a few isolated extreme samples, 1 .. 2*bound+5 samples long; lane hugetrace: 700..3000 samples under windows of 30..130 samples with long runs of few distinct values; lane reevaluate: one specification object evaluated repeatedly on one data-set dictionary that the caller edits in place between the calls (a value changes, a sample is appended or dropped); '
        'reference R-dt; result must be n [time,value] pairs with the given time column. Non-trivial = formula has '
        '>=1 temporal/event operator and the reference result is not constant over the trace, or n == 1; '
        'distinct = distinct (formula text, trace, time column) digests.')

ASSUMPTIONS = [
    'prev/next weak (+inf at boundary), s_prev/s_next strong (-inf); empty bounded window -> -inf (once/eventually/since/until) or +inf (historically/always)',
    'discrete since needs phi on (t\',t], until on [t,t\'); unless[a,b] = always[0,b] phi or phi until[a,b] psi',
    'cases where the reference meets NaN/overflow/math-domain errors are discarded (counted); arithmetic operands are finite-valued by construction',
    'values compared exactly; relative tolerance 1e-9 only when / sqrt exp ln log pow occur',
    'sampling period 1 s, bounds written in samples',
]

FULL = Profile(tbin=('since', 'until', 'unless'))


def _profile(tier, **kw):
    p = FULL.copy(**kw)
    if tier == 'thorough':
        p.max_depth = max(p.max_depth, 5)
        p.max_bound = max(p.max_bound, 8)
    return p


def time_columns(n):
    base = st.sampled_from(['scaled', 'shifted', 'jitter', 'nonuniform', 'negative', 'epoch-integers'])

    @st.composite
    def mk(draw):
        kind = draw(base)
        if kind == 'scaled':
            k = draw(st.sampled_from([0.001, 0.5, 2.0, 1000.0, 1e9]))
            return [i * k for i in range(n)]
        if kind == 'shifted':
            s = draw(st.sampled_from([1.0, 100.0, 0.25, 1e6]))
            return [s + i for i in range(n)]
        if kind == 'negative':
            return [float(i - n) for i in range(n)]
        if kind == 'epoch-integers':
            # nanoseconds since the epoch as Python integers (beyond 2**53): the pairs carry them back unchanged
            t0 = draw(st.sampled_from([1700000000000000123, 2 ** 53 + 1, 1700000000123456789]))
            return [t0 + i * 1000000000 + draw(st.integers(0, 255)) for i in range(n)]
        if kind == 'jitter':
            return [i + draw(st.integers(-3, 3)) / 16.0 for i in range(n)]
        t = 0.0
        out = []
        for i in range(n):
            out.append(t)
            t += draw(st.integers(1, 40)) / 8.0
        return out
    return mk()


def strat_main(tier):
    return dt_cases(_profile(tier), max_n=12 if tier == 'quick' else 24)


def strat_short(tier):
    return dt_cases(_profile(tier, max_bound=6), max_n=3)


def strat_deep(tier):
    return dt_cases(_profile(tier, max_depth=6 if tier == 'quick' else 7, nvars=2), max_n=8)


def strat_bigbound(tier):
    return dt_cases(_profile(tier, max_bound=24), max_n=12)


@st.composite
def strat_timecol_(draw, tier):
    c = draw(dt_cases(_profile(tier), max_n=10))
    n = len(next(iter(c['trace'].values())))
    c['time'] = draw(time_columns(n))
    return c


def strat_timecol(tier):
    return strat_timecol_(tier)


def eval_sub(f, vs, tr, time=None):
    """rtamt offline values of formula f, or an exception outcome."""
    o = run_dt_off('out = ' + show(f), vs, tr, time)
    if o[0] != 'ok':
        return o
    return ('ok', [p[1] for p in o[1]])


def attribute(f, vs, tr, n):
    """Top operator of the smallest sub-formula on which rtamt and the reference differ."""
    best = None
    for s in sorted(set(F.subterms(f)), key=F.size):
        if s[0] in ('var', 'const'):
            continue
        try:
            ref = dt(s, tr, n)
        except Undefined:
            continue
        used = F.fvars(s)
        if not used:
            continue
        o = eval_sub(s, used, {v: tr[v] for v in used})
        if o[0] != 'ok':
            return 'exc-in:' + F.op_of(s)
        tol = needs_tolerance(s)
        if len(o[1]) != n or any(not same(a, b, tol) for a, b in zip(o[1], ref)):
            best = F.op_of(s)
            break
    return best or 'nested'


def check(case):
    f = from_json(case['formula'])
    vs = list(case['vars'])
    tr = {v: [float(x) for x in case['trace'][v]] for v in vs}
    n = len(tr[vs[0]])
    time = case.get('time')
    labels = feature_labels(f, n)
    try:
        ref = dt(f, tr, n)
    except Undefined as e:
        return DISCARD('undefined:' + str(e)[:20], labels)
    caller = {v: list(xs) for v, xs in tr.items()}
    o = run_dt_off('out = ' + show(f), vs, tr, time)
    nontrivial = (n == 1) or (F.n_temporal(f) >= 1 and len(set(ref)) > 1)
    text = show(f)
    if o[0] != 'ok':
        return FAIL('exc:%s@%s' % (o[1], o[4]), 'spec: out = %s\ntrace: %s time: %s\nraised %s: %s at %s' % (
            text, tr, time, o[1], o[3], o[4]), labels)
    out = o[1]
    tcol = list(time) if time is not None else [float(i) for i in range(n)]
    if not isinstance(out, list) or len(out) != n or any((not isinstance(p, (list, tuple))) or len(p) != 2 for p in out):
        return FAIL('shape', 'spec: out = %s\ntrace: %s\nresult is not %d [time,value] pairs: %r' % (text, tr, n, out), labels)
    if [p[0] for p in out] != tcol:
        return FAIL('timestamps', 'spec: out = %s\ntime column %s returned as %s' % (text, tcol, [p[0] for p in out]), labels)
    got = [p[1] for p in out]
    tol = needs_tolerance(f)
    if any(not same(a, b, tol) for a, b in zip(got, ref)):
        if tr != caller:
            # operand list padded in place: attribute with clean data
            tr = caller
        key = 'mismatch:' + attribute(f, vs, caller, n)
        return FAIL(key, 'spec: out = %s\ntrace: %s\nrtamt:     %s\nreference: %s' % (
            text, caller, fmt_vals(got), fmt_vals(ref)), labels)
    return PASS(nontrivial, labels)


def strat_long(tier):
    """Few but large cases: long traces, wide windows, many variables."""
    return dt_cases(_profile(tier, max_depth=3, max_bound=20, nvars=5), max_n=48, min_n=16)


def strat_floats(tier):
    """Arbitrary doubles (non-dyadic decimals, 1e-9 .. 1e6): the reference performs the same floating-point operations."""
    return dt_cases(_profile(tier, var_bound=1e6, max_depth=4), max_n=10)


@st.composite
def strat_verylong_(draw, tier):
    """Windows of 33..48 (sometimes 63..129) samples on traces of 50..170 samples drawn from very few distinct values (exact ties inside one window)."""
    p = _profile(tier, max_depth=2, nvars=2)
    f, vs = draw(F.formulas(p))
    b = draw(st.sampled_from(list(range(33, 49)) + [63, 64, 65, 66, 70, 96, 127, 128, 129]))
    a = draw(st.sampled_from([0, 0, 1, 5, b]))
    ops = ['once', 'historically'] + (['eventually', 'always'] if PROPERTY == 'C01' else [])
    f = ('tun', draw(st.sampled_from(ops)), min(a, b), b, f)
    if draw(st.booleans()):
        f = ('un', 'not', f)
    n = max(50, b + 2) + draw(st.integers(0, 40))
    vals = st.sampled_from([0.0, 1.0, -1.0, 2.0, 5.0, -3.0])
    tr = {v: draw(st.lists(vals, min_size=n, max_size=n)) for v in vs}
    return {'formula': f, 'vars': vs, 'trace': tr}


@st.composite
def strat_reevaluate_(draw, tier):
    """One specification object evaluated several times on the same data-set dictionary, which the caller edits in place
    between the calls: a value changes, a sample is appended to every column (a growing log), the last sample is dropped."""
    c = draw(dt_cases(_profile(tier, max_depth=3), max_n=8, min_n=2))
    n = len(next(iter(c['trace'].values())))
    edits = []
    for _ in range(draw(st.integers(1, 4))):
        k = draw(st.sampled_from(['set', 'set', 'append', 'drop']))
        if k == 'set':
            edits.append(['set', draw(st.sampled_from(c['vars'])), draw(st.integers(0, n - 1)), draw(F.values())])
        elif k == 'append':
            edits.append(['append', {v: draw(F.values()) for v in c['vars']}])
            n += 1
        elif n > 1:
            edits.append(['drop'])
            n -= 1
    c['edits'] = edits
    return c


def check_reevaluate(case):
    from ..monitors import build, exc_outcome
    f = from_json(case['formula'])
    vs = list(case['vars'])
    labels = feature_labels(f) + ['reevaluate']
    tr = {v: [float(x) for x in case['trace'][v]] for v in vs}
    text = 'out = ' + show(f)
    try:
        spec = build('dt_off', text, vs)
    except Exception as e:  # noqa
        return DISCARD('build-raises(C14/C17):' + type(e).__name__, labels)
    ds = {'time': [float(i) for i in range(len(tr[vs[0]]))]}
    for v in vs:
        ds[v] = list(tr[v])                      # the caller's lists: kept and edited in place
    hist = []
    changed = 0
    for step in range(len(case['edits']) + 1):
        if step > 0:
            e = case['edits'][step - 1]
            n = len(ds['time'])
            if e[0] == 'set':
                if e[2] >= n:
                    continue
                changed += ds[e[1]][e[2]] != float(e[3])
                ds[e[1]][e[2]] = float(e[3])
            elif e[0] == 'append':
                ds['time'].append(float(n))
                for v in vs:
                    ds[v].append(float(e[1][v]))
                changed += 1
            elif n > 1:
                ds['time'].pop()
                for v in vs:
                    ds[v].pop()
                changed += 1
        n = len(ds['time'])
        cur = {v: list(ds[v]) for v in vs}
        try:
            ref = dt(f, cur, n)
        except Undefined:
            return DISCARD('undefined', labels)
        try:
            out = spec.evaluate(ds)
        except Exception as e:  # noqa
            o = exc_outcome(e)
            if step == 0:
                return DISCARD('first-evaluation-raises(main lanes)', labels)
            return FAIL('reevaluate-raises:' + o[1], 'spec: %s\ndata sets so far: %s\nevaluation %d on %s raised %s: %s at %s' % (text, hist, step, cur, o[1], o[3], o[4]), labels)
        hist.append(cur)
        if {v: ds[v] for v in vs} != cur or ds['time'] != [float(i) for i in range(n)]:
            return DISCARD('caller-data-modified(C11)', labels)
        ok = isinstance(out, list) and len(out) == n and all(same(p[1], r, needs_tolerance(f)) for p, r in zip(out, ref))
        if not ok:
            if step == 0:
                return DISCARD('first-evaluation-differs(main lanes)', labels)
            return FAIL('reevaluate-differs', 'spec: %s\ndata sets of the evaluations (one dictionary, edited in place): %s\nevaluation %d returned %s\nreference: %s' % (
                text, hist, step, out, fmt_vals(ref)), labels)
    return PASS(changed >= 1 and F.n_temporal(f) >= 1, labels)


def cand_reevaluate(case):
    if len(case['edits']) > 1:
        for i in range(len(case['edits'])):
            yield dict(case, edits=case['edits'][:i] + case['edits'][i + 1:])
    n0 = len(next(iter(case['trace'].values())))
    for c in std_candidates({k: case[k] for k in ('formula', 'vars', 'trace')}):
        if len(next(iter(c['trace'].values()))) != n0:
            continue
        c = dict(c)
        c['edits'] = [e for e in case['edits'] if e[0] != 'set' or e[1] in c['vars']]
        c['edits'] = [(['append', {v: e[1][v] for v in c['vars']}] if e[0] == 'append' else e) for e in c['edits']]
        if c['edits']:
            yield c


@st.composite
def strat_hugetrace_(draw, tier):
    """Traces of 700..3000 samples under windows of 30..130 samples (lower bound 0, 5 or 17): sizes at which an
    implementation may switch to another algorithm; few distinct values, so ties are everywhere."""
    vs = ['x', 'y']
    x = ('var', draw(st.sampled_from(vs)))
    g = draw(st.sampled_from([x, ('pred', '>=', x, ('const', 1.0)), ('un', 'not', ('pred', '<', x, ('var', 'y'))), ('un', 'abs', x)]))
    b = draw(st.integers(30, 130))
    a = draw(st.sampled_from([0, 0, 5, 17]))
    f = ('tun', draw(st.sampled_from(['eventually', 'always', 'once', 'historically'])), a, b, g)
    k = draw(st.integers(0, 3))
    if k == 1:
        f = ('un', 'not', f)
    elif k == 2:
        f = ('bin', draw(st.sampled_from(['and', 'or'])), f, ('tun', draw(st.sampled_from(['eventually', 'always'])), a, b, ('un', 'neg', x) if g[0] != 'pred' and g[0:2] != ('un', 'not') else ('un', 'not', g)))
    n = draw(st.sampled_from([700, 1500, 3000]))
    vals = st.sampled_from([0.0, 1.0, -1.0, 2.0, 5.0, -3.0])
    # long runs: a value is kept for a while
    tr = {}
    for v in vs:
        xs = []
        while len(xs) < n:
            xs += [draw(vals)] * draw(st.sampled_from([1, 1, 2, 7, 40, 150]))
        tr[v] = xs[:n]
    return {'formula': f, 'vars': vs, 'trace': tr}


def check_bigint(case):
    """Integer samples beyond 2**53: the reference keeps them integers (exact), values are compared exactly."""
    from .. import refsem
    from ..common import bigint_cases  # noqa
    f = from_json(case['formula'])
    vs = list(case['vars'])
    tr = {v: [int(x) for x in case['trace'][v]] for v in vs}
    n = len(tr[vs[0]])
    labels = feature_labels(f, n) + ['integer-samples>2^53']
    refsem.KEEP_INTEGERS = True
    try:
        ref = dt(f, tr, n)
    except Undefined as e:
        return DISCARD('undefined:' + str(e)[:20], labels)
    finally:
        refsem.KEEP_INTEGERS = False
    from ..monitors import build, exc_outcome
    try:
        spec = build('dt_off', 'out = ' + show(f), vs)
        ds = {'time': list(range(n))}
        for v in vs:
            ds[v] = list(tr[v])
        out = spec.evaluate(ds)
    except Exception as e:  # noqa
        o = exc_outcome(e)
        return FAIL('exc:%s@%s' % (o[1], o[4]), 'spec: out = %s\ntrace (integers): %s\nraised %s: %s' % (show(f), tr, o[1], o[3]), labels)
    got = [p[1] for p in out]
    if len(got) != n or any(a != b for a, b in zip(got, ref)):
        return FAIL('mismatch:integer-samples', 'spec: out = %s\ntrace (Python integers): %s\nrtamt:     %r\nreference (exact integer arithmetic): %r' % (
            show(f), tr, got, ref), labels)
    return PASS(len(set(ref)) > 1 or n == 1, labels)


LANES = [
    Lane('bigint', lambda tier: __import__('vlib.common', fromlist=['bigint_cases']).bigint_cases(), check_bigint, 600, 6000, None),
    # windows of 200..1100 samples (around 256, 512, 1024), lower bound 0 or not, traces shorter than the lower bound up to twice the upper bound
    Lane('giant', lambda tier: giant_cases(F.TUN_PAST + F.TUN_FUT, ('since', 'until')), check, 150, 1500, None),
    Lane('hugetrace', lambda tier: strat_hugetrace_(tier), check, 100, 1000, None),
    Lane('reevaluate', lambda tier: strat_reevaluate_(tier), check_reevaluate, 1000, 15000, cand_reevaluate),
    Lane('verylong', lambda tier: strat_verylong_(tier), check, 150, 2000, std_candidates),
    Lane('floats', strat_floats, check, 1000, 15000, std_candidates),
    Lane('long', strat_long, check, 300, 5000, std_candidates),
    Lane('main', strat_main, check, 3000, 60000, std_candidates),
    Lane('short', strat_short, check, 1200, 20000, std_candidates),
    Lane('deep', strat_deep, check, 800, 20000, std_candidates),
    Lane('bigbound', strat_bigbound, check, 800, 15000, std_candidates),
    Lane('timecol', strat_timecol, check, 1200, 20000, std_candidates),
]
