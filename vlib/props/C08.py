"""C08 - temporal bounds denote physical durations whatever the unit notation."""
from fractions import Fraction

from hypothesis import strategies as st

from .. import formula as F
from ..common import std_candidates, feature_labels, fmt_vals
from ..dense import DENSE, grid_signal, check_shape
from ..formula import Profile, from_json
from ..monitors import run_dt_off, run_dt_on, run_ct_off
from ..refsem import dt, Undefined, needs_tolerance, same, step_at
from ..runner import Lane, PASS, FAIL, DISCARD

PROPERTY = 'C08'

RULE = ('A formula whose bounds are counted in sampling periods, a sampling period (value, unit) and a default unit; every bound is spelled '
        'either with an explicit unit (s, ms, us, ns - any unit in which the literal is a finite decimal of <= 12 digits), or bare in the '
        'default unit, or bare next to a suffixed bound when both readings coincide; two independently drawn spellings of the same durations '
        '(also with the sampling period written in another unit and with another default unit) must give identical results offline and '
        'online, before and after pastify(), and equal R-dt computed with bound/period. Lane reject: one bound is moved off the sampling '
        'grid: RTAMTException no later than the first evaluate/update, never a value. Lane dense: grid signals; bounds spelled with '
        'explicit units, and the whole case restated in another default unit (time stamps scaled): identical step functions. '
        'Non-trivial = the two spellings differ in >= 1 unit token and the result is not constant; distinct = distinct (text1, text2, '
        'configuration, data) digests.')

ASSUMPTIONS = [
    'time stamps are expressed in the default unit (README); the time column of the discrete data set is i * period in that unit',
    'a bare bound next to a suffixed one is read in the unit of the suffixed one (the resolution order stated in the property anchors: per-bound unit, else the other bound unit, else the default unit)',
    'the units lanes contain no next/s_next (their one-sample delay is not a duration in the pastifier; recorded in DESIGN.md)',
]

U = {'s': 10 ** 9, 'ms': 10 ** 6, 'us': 10 ** 3, 'ns': 1}
UNITS = ('s', 'ms', 'us', 'ns')
PERIODS = [(1, 's'), (2, 's'), (500, 'ms'), (250, 'ms'), (100, 'ms'), (10, 'ms'), (1, 'ms'), (500, 'us'), (20, 'us'), (100, 'ns'), (5, 's')]

PROF_OFF = Profile(un_temp=F.UN_PAST + ('eventually', 'always'), tbin=('since', 'until', 'unless'), max_depth=3, max_bound=5)
PROF_PAST = Profile(un_temp=F.UN_PAST, bin_temp=F.BIN_PAST, tun=F.TUN_PAST, tbin=F.TBIN_PAST, max_depth=3, max_bound=5)
PROF_ON = Profile(un_temp=F.UN_PAST, bin_temp=F.BIN_PAST, tbin=('since', 'until'), max_depth=3, max_bound=3, no_future_under_past=True)


def decimal_text(fr):
    """Literal for a non-negative Fraction that is a finite decimal with few digits, else None."""
    fr = Fraction(fr)
    if fr.denominator == 1:
        s = str(fr.numerator)
        return s if len(s) <= 15 else None
    d = fr.denominator
    for p in (2, 5):
        while d % p == 0:
            d //= p
    if d != 1:
        return None
    for digits in range(1, 13):
        scaled = fr * 10 ** digits
        if scaled.denominator == 1:
            s = str(scaled.numerator).rjust(digits + 1, '0')
            return s[:-digits] + '.' + s[-digits:]
    return None


def spellings(k, period_ns, default_unit):
    """All (text, unit or '') spellings of the duration k periods."""
    out = []
    dur = Fraction(k * period_ns)
    for u in UNITS:
        t = decimal_text(dur / U[u])
        if t is not None:
            out.append((t, u))
            if u == default_unit:
                out.append((t, ''))
    return out


class Speller(object):
    def __init__(self, period_ns, default_unit, choices):
        self.p = period_ns
        self.d = default_unit
        self.c = list(choices) or [0]
        self.i = 0

    def take(self, n):
        x = self.c[self.i % len(self.c)]
        self.i += 1
        return x % n

    def __call__(self, a, b):
        sa = [x for x in spellings(a, self.p, self.d) if x[1]]      # explicit-unit spellings
        sb = [x for x in spellings(b, self.p, self.d) if x[1]]
        mode = self.take(5)       # 0,1: both suffixed; 2: both bare (default unit); 3: lower bare; 4: upper bare
        ta, ua = sa[self.take(len(sa))]
        tb, ub = sb[self.take(len(sb))]
        da, db = Fraction(a * self.p), Fraction(b * self.p)
        if mode == 2:
            xa, xb = decimal_text(da / U[self.d]), decimal_text(db / U[self.d])
            if xa is not None and xb is not None:
                ta, ua, tb, ub = xa, '', xb, ''
        elif mode == 3:
            # a bare bound next to a suffixed one is read in that unit (anchors of the property: "per-bound unit,
            # else the other bound unit, else the default unit")
            xa = decimal_text(da / U[ub])
            if xa is not None:
                ta, ua = xa, ''
        elif mode == 4:
            xb = decimal_text(db / U[ua])
            if xb is not None:
                tb, ub = xb, ''
        sep = ',' if self.take(2) == 0 else ':'
        return '[%s%s%s%s%s]' % (ta, ua, sep, tb, ub)


@st.composite
def ensure_timed(draw, f, mode):
    """Make sure the formula has at least one bounded operator (otherwise units play no role)."""
    if any(s[0] in ('tun', 'tbin') for s in F.subterms(f)):
        return f
    ops = ['once', 'historically'] if mode == 'online' else ['once', 'historically', 'eventually', 'always']
    b = draw(st.integers(0, 3))
    a = draw(st.integers(0, b))
    return ('tun', draw(st.sampled_from(ops)), a, b, f)


@st.composite
def cases(draw, tier, mode):
    prof = {'offline': PROF_OFF, 'online': PROF_PAST, 'pastified': PROF_ON}[mode]
    if tier == 'thorough':
        prof = prof.copy(max_depth=4)
    f, vs = draw(F.formulas(prof))
    f = draw(ensure_timed(f, mode))
    pv, pu = draw(st.sampled_from(PERIODS))
    # two notations of the configuration
    cfgs = []
    for _ in range(2):
        du = draw(st.sampled_from(UNITS))
        # the period written in another unit
        alts = [(t, u) for (t, u) in spellings(1, pv * U[pu], None) if '.' not in t]
        pt, pun = draw(st.sampled_from(alts))
        cfgs.append({'unit': du, 'period': [int(pt), pun], 'choices': draw(st.lists(st.integers(0, 11), min_size=12, max_size=12))})
    n = draw(F.trace_lengths(10))
    if mode == 'pastified':
        h = F.horizon(f) or 0
        n = h + draw(st.sampled_from([1, 2, 3, 5]))
    tr = draw(F.traces(vs, n=n))
    return {'formula': f, 'vars': vs, 'trace': tr, 'period_ns': pv * U[pu], 'cfgs': cfgs, 'mode': mode}


def text_for(f, period_ns, cfg):
    sp = Speller(period_ns, cfg['unit'], cfg['choices'])
    return 'out = ' + F.show(f, sp)


def time_column(n, period_ns, unit):
    return [float(Fraction(i * period_ns, U[unit])) for i in range(n)]


def run_mode(mode, text, vs, tr, cfg, period_ns):
    n = len(tr[vs[0]])
    kw = dict(unit=cfg['unit'], period=(cfg['period'][0], cfg['period'][1], 0.1))
    tcol = time_column(n, period_ns, cfg['unit'])
    if mode == 'offline':
        o = run_dt_off(text, vs, tr, time=tcol, **kw)
        return ('ok', [p[1] for p in o[1]]) if o[0] == 'ok' else o
    return run_dt_on(text, vs, tr, time=tcol, pastify=(mode == 'pastified'), **kw)


def check(case):
    f = from_json(case['formula'])
    mode = case['mode']
    vs = list(case['vars'])
    tr = {v: [float(x) for x in case['trace'][v]] for v in vs}
    n = len(tr[vs[0]])
    labels = ['mode:' + mode] + feature_labels(f, n)
    used = F.fvars(f)
    if not used:
        return DISCARD('no-variable', labels)
    if mode == 'online' and F.has_future(f):
        # un-pastified online monitors reject future operators: strip to the past fragment by discarding
        return DISCARD('future-without-pastify', labels)
    h = F.horizon(f)
    if mode == 'pastified' and h is None:
        return DISCARD('unbounded', labels)
    feed = [v for v in vs if v in used]
    w = {v: tr[v] for v in feed}
    pn = case['period_ns']
    texts = [text_for(f, pn, c) for c in case['cfgs']]
    try:
        if mode == 'pastified':
            ref = [None] * h + [dt(f, {v: xs[:i + 1] for v, xs in w.items()}, i + 1)[i - h] for i in range(h, n)]
        else:
            ref = dt(f, w, n)
    except Undefined:
        return DISCARD('undefined', labels)
    outs = [run_mode(mode, t, feed, w, c, pn) for t, c in zip(texts, case['cfgs'])]
    desc = 'mode %s, sampling period %d ns\n' % (mode, pn) + '\n'.join(
        'spelling %d: unit=%s period=%s%s  %s' % (i, c['unit'], c['period'][0], c['period'][1], t) for i, (t, c) in enumerate(zip(texts, case['cfgs']))) + \
        '\ntrace: %s' % w
    for i, o in enumerate(outs):
        if o[0] != 'ok':
            return FAIL('spelling-raises:%s:%s@%s' % (mode, o[1], o[4].split(':')[-1]), desc + '\nspelling %d raised %s: %s at %s' % (i, o[1], o[3], o[4]), labels)
    tol = needs_tolerance(f)
    start = h if mode == 'pastified' else 0
    a, b = outs[0][1], outs[1][1]
    if any(not same(x, y, False) for x, y in zip(a[start:], b[start:])):
        return FAIL('spellings-differ:' + mode, desc + '\nresult 0: %s\nresult 1: %s' % (fmt_vals(a), fmt_vals(b)), labels)
    if any(not same(x, r, tol) for x, r in zip(a[start:], ref[start:])):
        return FAIL('duration-misread:' + mode, desc + '\nresult:    %s\nreference (bounds in periods): %s' % (fmt_vals(a), fmt_vals(ref[start:])), labels)
    unit_tokens_differ = texts[0] != texts[1] or case['cfgs'][0]['unit'] != case['cfgs'][1]['unit'] or case['cfgs'][0]['period'] != case['cfgs'][1]['period']
    has_bounds = F.max_bound(f) > 0 or any(s[0] in ('tun', 'tbin') for s in F.subterms(f))
    return PASS(unit_tokens_differ and has_bounds and len(set(a[start:])) > 1, labels)


# ---- reject lane -----------------------------------------------------------

@st.composite
def reject_cases(draw, tier):
    prof = PROF_OFF.copy(max_depth=3)
    mode = draw(st.sampled_from(['offline', 'online', 'pastified']))
    prof = {'offline': prof, 'online': PROF_PAST, 'pastified': PROF_ON}[mode]
    f, vs = draw(F.formulas(prof))
    f = draw(ensure_timed(f, mode))
    # only periods that can be halved / shifted inside the unit table
    pv, pu = draw(st.sampled_from([(2, 's'), (500, 'ms'), (250, 'ms'), (10, 'ms'), (20, 'us'), (100, 'ns'), (5, 's'), (1, 's')]))
    du = draw(st.sampled_from(UNITS))
    which = draw(st.integers(0, 50))
    off = draw(st.sampled_from([Fraction(1, 2), Fraction(1, 4), Fraction(3, 2), Fraction(1, 10)]))
    n = draw(st.integers(1, 6))
    tr = draw(F.traces(vs, n=n))
    return {'formula': f, 'vars': vs, 'trace': tr, 'period': [pv, pu], 'unit': du, 'which': which, 'off': [off.numerator, off.denominator], 'mode': mode}


def check_reject(case):
    f = from_json(case['formula'])
    vs = list(case['vars'])
    mode = case['mode']
    tr = {v: [float(x) for x in case['trace'][v]] for v in vs}
    labels = ['mode:' + mode]
    timed = [s for s in F.subterms(f) if s[0] in ('tun', 'tbin')]
    if not timed:
        return DISCARD('no-bound', labels)
    if mode != 'offline' and any(o in F.UNBOUNDED_FUTURE for o in F.ops(f)):
        return DISCARD('unbounded-online', labels)
    if mode == 'online' and F.has_future(f):
        return DISCARD('future-without-pastify', labels)
    used = F.fvars(f)
    if not used:
        return DISCARD('no-variable', labels)
    feed = [v for v in vs if v in used]
    pv, pu = case['period']
    pn = pv * U[pu]
    target = case['which'] % len(timed)
    off = Fraction(case['off'][0], case['off'][1])
    count = [0]

    def bp(a, b):
        idx = count[0]
        count[0] += 1
        da, db = Fraction(a * pn), Fraction(b * pn)
        if idx == target:
            db = db + off * pn        # upper bound off the sampling grid (still >= lower bound)
        ta, tb = None, None
        for u in UNITS:
            ta = ta or (decimal_text(da / U[u]) and (decimal_text(da / U[u]), u))
            tb = tb or (decimal_text(db / U[u]) and (decimal_text(db / U[u]), u))
        if not ta or not tb:
            return None
        return '[%s%s,%s%s]' % (ta[0], ta[1], tb[0], tb[1])
    try:
        text = 'out = ' + F.show(f, bp)
    except TypeError:
        return DISCARD('unprintable', labels)
    if 'None' in text:
        return DISCARD('unprintable', labels)
    # show() visits timed nodes in pre-order, the same order as `timed`
    kw = dict(unit=case['unit'], period=(pv, pu, 0.1))
    w = {v: tr[v] for v in feed}
    n = len(tr[vs[0]])
    tcol = time_column(n, pn, case['unit'])
    if mode == 'offline':
        o = run_dt_off(text, feed, w, time=tcol, **kw)
    else:
        o = run_dt_on(text, feed, w, time=tcol, pastify=(mode == 'pastified'), **kw)
    desc = 'mode %s, period %s%s, default unit %s\nspec: %s\ntrace: %s' % (mode, pv, pu, case['unit'], text, w)
    if o[0] == 'ok':
        return FAIL('off-grid-accepted:' + mode, desc + '\na bound that is not a multiple of the sampling period was accepted; result %r' % (o[1],), labels)
    if not o[2]:
        return FAIL('off-grid-wrong-exception:%s:%s' % (mode, o[1]), desc + '\nraised %s (not RTAMTException): %s at %s' % (o[1], o[3], o[4]), labels)
    return PASS(len(timed) >= 2 or F.depth(f) >= 3, labels)


# ---- dense lane ------------------------------------------------------------

@st.composite
def dense_cases(draw, tier):
    prof = DENSE.copy(max_depth=3, max_bound=8)
    f, vs = draw(F.formulas(prof))
    sig = {v: draw(grid_signal(0, max_samples=6)) for v in vs}
    du = draw(st.sampled_from(['s', 'ms', 'us']))
    choices = draw(st.lists(st.integers(0, 11), min_size=12, max_size=12))
    du2 = draw(st.sampled_from([u for u in ('s', 'ms', 'us', 'ns') if U[u] < U[du]]))
    return {'formula': f, 'vars': vs, 'signals': sig, 'unit': du, 'unit2': du2, 'choices': choices}


def check_dense(case):
    f = from_json(case['formula'])
    vs = list(case['vars'])
    used = F.fvars(f)
    labels = ['mode:dense'] + feature_labels(f)
    if not used:
        return DISCARD('no-variable', labels)
    feed = [v for v in vs if v in used]
    du, du2 = case['unit'], case['unit2']
    q = Fraction(1, 4)                      # quantum: a quarter of the default unit
    q_ns = q * U[du]
    sig = {v: [[float(k * q), float(x)] for k, x in case['signals'][v]] for v in feed}
    scale = Fraction(U[du], U[du2])          # integer >= 1000
    sig2 = {v: [[float(k * q * scale), float(x)] for k, x in case['signals'][v]] for v in feed}
    bare = 'out = ' + F.show(f, F.make_scaled_bound_printer(q))
    sp = Speller(q_ns, du, case['choices'])
    try:
        spelled = 'out = ' + F.show(f, sp)
        bare2 = 'out = ' + F.show(f, F.make_scaled_bound_printer(q * scale))
    except (AssertionError, TypeError, ZeroDivisionError):
        return DISCARD('unprintable', labels)
    o0 = run_ct_off(bare, feed, sig, unit=du)
    o1 = run_ct_off(spelled, feed, sig, unit=du)
    o2 = run_ct_off(bare2, feed, sig2, unit=du2)
    desc = 'default unit %s\nbare:    %s\nspelled: %s\nin %s:   %s\nsignals: %s' % (du, bare, spelled, du2, bare2, sig)
    if o0[0] != 'ok':
        return DISCARD('bare-raises(C17)', labels)
    for name, o in (('spelled', o1), ('restated', o2)):
        if o[0] != 'ok':
            return FAIL('dense-%s-raises:%s' % (name, o[1]), desc + '\n%s raised %s: %s at %s' % (name, o[1], o[3], o[4]), labels)
        if check_shape(o[1]):
            return FAIL('dense-shape', desc + '\n' + check_shape(o[1]), labels)
    # compare as step functions on the grid (cell starts and midpoints up to the earliest end)
    kend = min(case['signals'][v][-1][0] for v in feed)
    for k2 in range(0, 2 * kend + 1):
        t = Fraction(k2, 2) * q
        a = step_at(o0[1], float(t))
        b = step_at(o1[1], float(t))
        c = step_at(o2[1], float(t * scale))
        if a is None or b is None or not same(a, b, needs_tolerance(f)):
            return FAIL('dense-spelling-differs', desc + '\nat t=%s: bare %r, spelled %r\nbare result: %r\nspelled result: %r' % (float(t), a, b, o0[1], o1[1]), labels)
        if c is None or not same(a, c, needs_tolerance(f)):
            return FAIL('dense-unit-change-differs', desc + '\nat t=%s: in %s %r, in %s %r' % (float(t), du, a, du2, c), labels)
    bounded = any(s[0] in ('tun', 'tbin') for s in F.subterms(f))
    return PASS(bounded and spelled != bare, labels)


def cand_dense(case):
    from ..common import formula_candidates
    for f2 in formula_candidates(from_json(case['formula'])):
        if f2[0] == 'const' or not F.fvars(f2):
            continue
        c = dict(case)
        c['formula'] = f2
        yield c


LANES = [
    Lane('offline', lambda tier: cases(tier, 'offline'), check, 2500, 40000, std_candidates),
    Lane('online', lambda tier: cases(tier, 'online'), check, 1500, 20000, std_candidates),
    Lane('pastified', lambda tier: cases(tier, 'pastified'), check, 2500, 40000, std_candidates),
    Lane('reject', lambda tier: reject_cases(tier), check_reject, 1500, 20000, std_candidates),
    Lane('dense', lambda tier: dense_cases(tier), check_dense, 1500, 20000, cand_dense),
]
