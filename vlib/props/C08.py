"""C08 - temporal bounds denote physical durations whatever the unit notation."""
from fractions import Fraction

from hypothesis import strategies as st

from .. import formula as F
from ..common import std_candidates, feature_labels, fmt_vals
from ..dense import DENSE, grid_signal, check_shape
from ..formula import Profile, from_json
from ..monitors import run_dt_off, run_dt_on, run_ct_off, exc_outcome
from ..refsem import dt, Undefined, needs_tolerance, same, step_at
from ..runner import Lane, PASS, FAIL, DISCARD

PROPERTY = 'C08'

RULE = ('A formula whose bounds are counted in sampling periods, a sampling period (value, unit) and a default unit; every bound is spelled '
        'either with an explicit unit (s, ms, us, ns - any unit in which the literal is a finite decimal of <= 12 digits), or bare in the '
        'default unit, or bare next to a suffixed bound when both readings coincide; two independently drawn spellings of the same durations '
        '(also with the sampling period written in another unit and with another default unit) must give identical results offline and '
        'online, before and after pastify(), and equal R-dt computed with bound/period; a spelling may also write the same requirement text '
        'twice (two assertions) or call parse() twice before pastify(). Lanes reconfigure / reconfigure_unit: one object used under one sampling period / default unit, '
        're-configured (set_sampling_period, spec.unit, parse, pastify, reset) and used again equals a fresh object under the second configuration. Lane reject_live: a live online monitor (also pastified) whose sampling period is changed so that a bound is no longer a multiple of it: reset() and every later call must raise RTAMTException until the period fits again, then reset() gives a fresh monitor. Lane dense_online: the dense lane through the dense-time online monitor (pastified when the formula looks ahead), input in one or two calls, the three notations must cover the same span with the same values. Lane twins also writes one twin without any unit next to one in the coarse unit. Lane constbound also hands the constant to declare_const() as a Python number. Lane reject: one bound is moved off the sampling '
        'grid (by a fraction of the period or by a fraction of a nanosecond; periods down to 1 ns): RTAMTException no later than the first evaluate/update, never a value. Lane dense_decimal: default unit ms / us, whole time stamps, bounds that are whole tens of the default unit also written as decimals of the coarser unit (1070 ms = 1.07 s): identical results. Lane dense: grid signals; bounds spelled with '
        'explicit units, and the whole case restated in another default unit (time stamps scaled): identical step functions. '
        'Non-trivial = the two spellings differ in >= 1 unit token and the result is not constant; distinct = distinct (text1, text2, '
        'configuration, data) digests.')

ASSUMPTIONS = [
    'time stamps are expressed in the default unit (README); the time column of the discrete data set is i * period in that unit',
    'a bare bound next to a suffixed one is read in the unit of the suffixed one (the resolution order stated in the property anchors: per-bound unit, else the other bound unit, else the default unit)',
    'one step of next / s_next is one sampling period (the pastified lanes contain them since the repair 2636501)',
]

U = {'s': 10 ** 9, 'ms': 10 ** 6, 'us': 10 ** 3, 'ns': 1}
UNITS = ('s', 'ms', 'us', 'ns')
PERIODS = [(1, 's'), (2, 's'), (500, 'ms'), (250, 'ms'), (100, 'ms'), (10, 'ms'), (1, 'ms'), (500, 'us'), (20, 'us'), (100, 'ns'), (5, 's'), (2500, 'us'), (1500, 'ms'),
           (67, 'ms'), (535, 'ms'), (268, 'us')]       # 0.067 * 1e9 is 67000000.00000001 in floating point

PROF_OFF = Profile(un_temp=F.UN_PAST + ('eventually', 'always'), tbin=('since', 'until', 'unless'), max_depth=3, max_bound=5)
PROF_PAST = Profile(un_temp=F.UN_PAST, bin_temp=F.BIN_PAST, tun=F.TUN_PAST, tbin=F.TBIN_PAST, max_depth=3, max_bound=5)
PROF_ON = Profile(un_temp=F.UN_PAST + ('next', 's_next'), bin_temp=F.BIN_PAST, tbin=('since', 'until'), max_depth=3, max_bound=3)


def decimal_text(fr, max_digits=12):
    """Literal for a non-negative Fraction that is a finite decimal with few digits, else None."""
    fr = Fraction(fr)
    if fr.denominator == 1:
        s = str(fr.numerator)
        return s if len(s) <= 15 else None
    d = fr.denominator
    for p in (2, 5):
        while d % p == 0:
            d //= p
    if d != 1:
        return None
    for digits in range(1, max_digits + 1):
        scaled = fr * 10 ** digits
        if scaled.denominator == 1:
            s = str(scaled.numerator).rjust(digits + 1, '0')
            return s[:-digits] + '.' + s[-digits:]
    return None


def spellings(k, period_ns, default_unit):
    """All (text, unit or '') spellings of the duration k periods."""
    out = []
    dur = Fraction(k * period_ns)
    for u in UNITS:
        t = decimal_text(dur / U[u])
        if t is not None:
            out.append((t, u))
            if u == default_unit:
                out.append((t, ''))
    return out


class Speller(object):
    def __init__(self, period_ns, default_unit, choices, uniform=None):
        self.p = period_ns
        self.d = default_unit
        self.c = list(choices) or [0]
        self.i = 0
        self.uniform = uniform      # a unit: every bound is written in it (equal sub-formulas get equal text)

    def take(self, n):
        x = self.c[self.i % len(self.c)]
        self.i += 1
        return x % n

    def __call__(self, a, b):
        if self.uniform:
            xa = decimal_text(Fraction(a * self.p) / U[self.uniform])
            xb = decimal_text(Fraction(b * self.p) / U[self.uniform])
            if xa is not None and xb is not None:
                return '[%s%s,%s%s]' % (xa, self.uniform, xb, self.uniform)
        sa = [x for x in spellings(a, self.p, self.d) if x[1]]      # explicit-unit spellings
        sb = [x for x in spellings(b, self.p, self.d) if x[1]]
        mode = self.take(5)       # 0,1: both suffixed; 2: both bare (default unit); 3: lower bare; 4: upper bare
        ta, ua = sa[self.take(len(sa))]
        tb, ub = sb[self.take(len(sb))]
        da, db = Fraction(a * self.p), Fraction(b * self.p)
        if mode == 2:
            xa, xb = decimal_text(da / U[self.d]), decimal_text(db / U[self.d])
            if xa is not None and xb is not None:
                ta, ua, tb, ub = xa, '', xb, ''
        elif mode == 3:
            # a bare bound next to a suffixed one is read in that unit (anchors of the property: "per-bound unit,
            # else the other bound unit, else the default unit")
            xa = decimal_text(da / U[ub])
            if xa is not None:
                ta, ua = xa, ''
        elif mode == 4:
            xb = decimal_text(db / U[ua])
            if xb is not None:
                tb, ub = xb, ''
        sep = ',' if self.take(2) == 0 else ':'
        return '[%s%s%s%s%s]' % (ta, ua, sep, tb, ub)


@st.composite
def ensure_timed(draw, f, mode):
    """Make sure the formula has at least one bounded operator (otherwise units play no role)."""
    if any(s[0] in ('tun', 'tbin') for s in F.subterms(f)):
        return f
    ops = ['once', 'historically'] if mode == 'online' else ['once', 'historically', 'eventually', 'always']
    b = draw(st.integers(0, 3))
    a = draw(st.integers(0, b))
    return ('tun', draw(st.sampled_from(ops)), a, b, f)


@st.composite
def cases(draw, tier, mode, wide=False):
    prof = {'offline': PROF_OFF, 'online': PROF_PAST, 'pastified': PROF_ON}[mode].copy(reuse=0.3)
    if tier == 'thorough':
        prof = prof.copy(max_depth=4)
    if wide:
        # bounds of up to 999 sampling periods: literals with three significant digits in every unit
        prof = prof.copy(max_bound=999, max_depth=3)
    f, vs = draw(F.formulas(prof))
    if wide and draw(st.booleans()):
        # punctual interval [k,k] directly above the formula
        k = draw(st.integers(1, 999))
        f = ('tun', draw(st.sampled_from(['once', 'historically'] if mode == 'online' else ['once', 'historically', 'eventually', 'always'])), k, k, f)
    f = draw(ensure_timed(f, mode))
    if draw(st.integers(0, 3)) == 0:
        # the same bounded sub-formula twice (two nodes with the same printed text under a uniform spelling)
        timed = [s_ for s_ in F.subterms(f) if s_[0] in ('tun', 'tbin')]
        g = draw(st.sampled_from(timed))
        f = ('bin', draw(st.sampled_from(['and', 'or', 'implies'])), g, f) if draw(st.booleans()) else \
            ('bin', draw(st.sampled_from(['and', 'or'])), f, ('un', 'not', g))
    pv, pu = draw(st.sampled_from(PERIODS))
    # two notations of the configuration
    cfgs = []
    for _ in range(2):
        du = draw(st.sampled_from(UNITS))
        # the period written in another unit
        # ... also as a non-integer number of a larger unit when that number is an exact float (0.5 s, 2.5 ms)
        # (also decimals without exact binary representation: 0.01 s, 0.1 ms - the number the caller passes is the decimal it wrote)
        alts = [(t, u) for (t, u) in spellings(1, pv * U[pu], None) if len(t) <= 8]
        pt, pun = draw(st.sampled_from(alts))
        cfgs.append({'unit': du, 'period': [float(pt) if '.' in pt else int(pt), pun], 'choices': draw(st.lists(st.integers(0, 11), min_size=12, max_size=12)),
                     'uniform': draw(st.sampled_from([None, None, 's', 'ms', 'us', 'ns'])),
                     # None: one requirement; dup: the same requirement text written twice (two assertions); reparse: parse() twice
                     'layout': draw(st.sampled_from([None, None, None, 'dup', 'reparse'])),
                     'bare_period': draw(st.booleans()),
                     # the period value is handed over as an int / float, or as an exact number: decimal.Decimal, fractions.Fraction
                     'period_as': draw(st.sampled_from([None, None, None, 'decimal', 'fraction']))})
    n = draw(F.trace_lengths(10))
    if mode == 'pastified':
        h = F.horizon(f) or 0
        n = h + draw(st.sampled_from([1, 2, 3, 5]))
    tr = draw(F.traces(vs, n=n))
    return {'formula': f, 'vars': vs, 'trace': tr, 'period_ns': pv * U[pu], 'cfgs': cfgs, 'mode': mode}


def text_for(f, period_ns, cfg):
    sp = Speller(period_ns, cfg['unit'], cfg['choices'], cfg.get('uniform'))
    body = F.show(f, sp)
    if cfg.get('layout') == 'dup':
        return 'first = %s;\nout = %s' % (body, body)
    return 'out = ' + body


def time_column(n, period_ns, unit):
    return [float(Fraction(i * period_ns, U[unit])) for i in range(n)]


def run_mode(mode, text, vs, tr, cfg, period_ns):
    n = len(tr[vs[0]])
    kw = dict(unit=cfg['unit'], period=(cfg['period'][0], cfg['period'][1], 0.1))
    if cfg.get('bare_period') and cfg['period'][1] == 's':
        # set_sampling_period(2): the unit argument is left to its documented default (seconds), whatever the default unit of bounds
        kw['period'] = (cfg['period'][0],)
    if cfg.get('period_as'):
        from decimal import Decimal
        v = cfg['period'][0]
        kw['period'] = ((Decimal(str(v)) if cfg['period_as'] == 'decimal' else Fraction(str(v))),) + tuple(kw['period'][1:])
    if cfg.get('layout') == 'reparse':
        kw['parse'] = 2
    tcol = time_column(n, period_ns, cfg['unit'])
    if mode == 'offline':
        o = run_dt_off(text, vs, tr, time=tcol, **kw)
        return ('ok', [p[1] for p in o[1]]) if o[0] == 'ok' else o
    return run_dt_on(text, vs, tr, time=tcol, pastify=(mode == 'pastified'), **kw)


def check(case):
    f = from_json(case['formula'])
    mode = case['mode']
    vs = list(case['vars'])
    tr = {v: [float(x) for x in case['trace'][v]] for v in vs}
    n = len(tr[vs[0]])
    labels = ['mode:' + mode] + feature_labels(f, n)
    used = F.fvars(f)
    if not used:
        return DISCARD('no-variable', labels)
    if mode == 'online' and F.has_future(f):
        # un-pastified online monitors reject future operators: strip to the past fragment by discarding
        return DISCARD('future-without-pastify', labels)
    h = F.horizon(f)
    if mode == 'pastified' and h is None:
        return DISCARD('unbounded', labels)
    feed = [v for v in vs if v in used]
    w = {v: tr[v] for v in feed}
    pn = case['period_ns']
    texts = [text_for(f, pn, c) for c in case['cfgs']]
    try:
        if mode == 'pastified':
            ref = [None] * h + [dt(f, {v: xs[:i + 1] for v, xs in w.items()}, i + 1)[i - h] for i in range(h, n)]
        else:
            ref = dt(f, w, n)
    except Undefined:
        return DISCARD('undefined', labels)
    outs = [run_mode(mode, t, feed, w, c, pn) for t, c in zip(texts, case['cfgs'])]
    desc = 'mode %s, sampling period %d ns\n' % (mode, pn) + '\n'.join(
        'spelling %d: unit=%s period=%s%s  %s' % (i, c['unit'], c['period'][0], c['period'][1], t) for i, (t, c) in enumerate(zip(texts, case['cfgs']))) + \
        '\ntrace: %s' % w
    for i, o in enumerate(outs):
        if o[0] != 'ok':
            return FAIL('spelling-raises:%s:%s@%s' % (mode, o[1], o[4].split(':')[-1]), desc + '\nspelling %d raised %s: %s at %s' % (i, o[1], o[3], o[4]), labels)
    tol = needs_tolerance(f)
    start = h if mode == 'pastified' else 0
    a, b = outs[0][1], outs[1][1]
    if any(not same(x, y, False) for x, y in zip(a[start:], b[start:])):
        return FAIL('spellings-differ:' + mode, desc + '\nresult 0: %s\nresult 1: %s' % (fmt_vals(a), fmt_vals(b)), labels)
    if any(not same(x, r, tol) for x, r in zip(a[start:], ref[start:])):
        return FAIL('duration-misread:' + mode, desc + '\nresult:    %s\nreference (bounds in periods): %s' % (fmt_vals(a), fmt_vals(ref[start:])), labels)
    unit_tokens_differ = texts[0] != texts[1] or case['cfgs'][0]['unit'] != case['cfgs'][1]['unit'] or case['cfgs'][0]['period'] != case['cfgs'][1]['period']
    has_bounds = F.max_bound(f) > 0 or any(s[0] in ('tun', 'tbin') for s in F.subterms(f))
    return PASS(unit_tokens_differ and has_bounds and len(set(a[start:])) > 1, labels)


# ---- reject lane -----------------------------------------------------------

@st.composite
def reject_cases(draw, tier):
    prof = PROF_OFF.copy(max_depth=3)
    mode = draw(st.sampled_from(['offline', 'online', 'pastified']))
    prof = {'offline': prof, 'online': PROF_PAST, 'pastified': PROF_ON}[mode]
    f, vs = draw(F.formulas(prof))
    f = draw(ensure_timed(f, mode))
    # only periods that can be halved / shifted inside the unit table
    pv, pu = draw(st.sampled_from([(2, 's'), (500, 'ms'), (250, 'ms'), (10, 'ms'), (20, 'us'), (100, 'ns'), (5, 's'), (1, 's'), (1, 'ms'), (1, 'us'), (1, 'ns'), (3, 'ns')]))
    du = draw(st.sampled_from(UNITS))
    which = draw(st.integers(0, 50))
    off = draw(st.sampled_from([Fraction(1, 2), Fraction(1, 4), Fraction(3, 2), Fraction(1, 10)]))
    if draw(st.integers(0, 2)) == 0:
        # an excess far below the period: a fraction of a nanosecond (the smallest unit of the language), down to 1e-13 ns
        # (literals with up to 24 decimals: 2.0000000000000001s)
        off = draw(st.sampled_from([Fraction(1, 2), Fraction(1, 10), Fraction(1, 2000), Fraction(1, 4), Fraction(1, 10 ** 6), Fraction(1, 10 ** 7),
                                    Fraction(1, 10 ** 9), Fraction(3, 10 ** 10), Fraction(1, 10 ** 13)])) / (pv * U[pu])
    n = draw(st.integers(1, 6))
    tr = draw(F.traces(vs, n=n))
    # which bound(s) of the chosen interval leave the grid: the upper one, the lower one, or both by the same amount
    # (the width of the window stays a multiple of the period)
    shift = draw(st.sampled_from(['upper', 'upper', 'lower', 'both', 'both']))
    return {'formula': f, 'vars': vs, 'trace': tr, 'period': [pv, pu], 'unit': du, 'which': which, 'off': [off.numerator, off.denominator], 'mode': mode,
            'shift': shift,
            # the bound that leaves the grid is written as a declared constant (declare_const or "const float kb = ..." in the text)
            'via_const': draw(st.sampled_from([None, None, 'api', 'text']))}


def check_reject(case):
    f = from_json(case['formula'])
    vs = list(case['vars'])
    mode = case['mode']
    tr = {v: [float(x) for x in case['trace'][v]] for v in vs}
    labels = ['mode:' + mode, 'off-grid:' + case.get('shift', 'upper')]
    timed = [s for s in F.subterms(f) if s[0] in ('tun', 'tbin')]
    if not timed:
        return DISCARD('no-bound', labels)
    if mode != 'offline' and any(o in F.UNBOUNDED_FUTURE for o in F.ops(f)):
        return DISCARD('unbounded-online', labels)
    if mode == 'online' and F.has_future(f):
        return DISCARD('future-without-pastify', labels)
    used = F.fvars(f)
    if not used:
        return DISCARD('no-variable', labels)
    feed = [v for v in vs if v in used]
    pv, pu = case['period']
    pn = pv * U[pu]
    target = case['which'] % len(timed)
    off = Fraction(case['off'][0], case['off'][1])
    count = [0]

    def bp(a, b):
        idx = count[0]
        count[0] += 1
        da, db = Fraction(a * pn), Fraction(b * pn)
        if idx == target:
            shift = case.get('shift', 'upper')
            if shift == 'lower' and da + off * pn > db:
                shift = 'both'
            if shift in ('upper', 'both'):
                db = db + off * pn        # upper bound off the sampling grid (still >= lower bound)
            if shift in ('lower', 'both'):
                da = da + off * pn
        ta, tb = None, None
        units = UNITS if case['which'] % 2 == 0 else UNITS[::-1]       # prefer the largest / the smallest unit in which the literal is finite
        for u in units:
            ta = ta or (decimal_text(da / U[u], 24) and (decimal_text(da / U[u], 24), u))
            tb = tb or (decimal_text(db / U[u], 24) and (decimal_text(db / U[u], 24), u))
        if not ta or not tb:
            return None
        if idx == target and case.get('via_const'):
            constval[0] = tb[0]
            return '[%s%s,kb %s]' % (ta[0], ta[1], tb[1])
        return '[%s%s,%s%s]' % (ta[0], ta[1], tb[0], tb[1])
    constval = [None]
    try:
        text = 'out = ' + F.show(f, bp)
    except TypeError:
        return DISCARD('unprintable', labels)
    if 'None' in text:
        return DISCARD('unprintable', labels)
    consts = None
    if constval[0] is not None:
        labels.append('bound-through-constant:' + case['via_const'])
        if case['via_const'] == 'api':
            consts = [('kb', 'float', constval[0])]
        else:
            text = 'const float kb = %s\n%s' % (constval[0], text)
    # show() visits timed nodes in pre-order, the same order as `timed`
    kw = dict(unit=case['unit'], period=(pv, pu, 0.1), consts=consts)
    w = {v: tr[v] for v in feed}
    n = len(tr[vs[0]])
    tcol = time_column(n, pn, case['unit'])
    if mode == 'offline':
        o = run_dt_off(text, feed, w, time=tcol, **kw)
    else:
        o = run_dt_on(text, feed, w, time=tcol, pastify=(mode == 'pastified'), **kw)
    desc = 'mode %s, period %s%s, default unit %s\nspec: %s\ntrace: %s' % (mode, pv, pu, case['unit'], text, w)
    if o[0] == 'ok':
        return FAIL('off-grid-accepted:' + mode, desc + '\na bound that is not a multiple of the sampling period was accepted; result %r' % (o[1],), labels)
    if not o[2]:
        return FAIL('off-grid-wrong-exception:%s:%s' % (mode, o[1]), desc + '\nraised %s (not RTAMTException): %s at %s' % (o[1], o[3], o[4]), labels)
    return PASS(len(timed) >= 2 or F.depth(f) >= 3, labels)


# ---- reject_live lane ------------------------------------------------------

@st.composite
def reject_live_cases(draw, tier):
    mode = draw(st.sampled_from(['online', 'pastified']))
    f, vs = draw(F.formulas({'online': PROF_PAST, 'pastified': PROF_ON}[mode]))
    f = draw(ensure_timed(f, mode))
    if not any(b for x in F.subterms(f) if x[0] in ('tun', 'tbin') for b in (x[2], x[3])) or not F.fvars(f):
        # every bound is 0 (a multiple of every period), or no variable is left: put a window of positive width on top
        b = draw(st.integers(1, 3))
        g = f if F.fvars(f) else ('pred', '>=', ('var', vs[0]), ('const', 1.0))
        f = ('tun', draw(st.sampled_from(['once', 'historically'] if mode == 'online' else ['once', 'historically', 'eventually', 'always'])), draw(st.integers(0, b)), b, g)
    n = draw(st.sampled_from([0, 1, 2, 3, 5]))
    p1 = draw(st.sampled_from([1, 2, 10]))
    bounds = [b * p1 for x in F.subterms(f) if x[0] in ('tun', 'tbin') for b in (x[2], x[3])]
    p2 = draw(st.sampled_from([p for p in (3, 4, 7, 20, 30) if any(b % p for b in bounds)]))
    return {'formula': f, 'vars': vs, 'mode': mode, 'p1': p1, 'p2': p2,
            'trace': draw(F.traces(vs, n=max(n, 1))), 'before': n,
            # calls after the period has left the grid of the bounds; every one of them has to be rejected
            'calls': ['reset'] + draw(st.lists(st.sampled_from(['reset', 'update']), min_size=0, max_size=3)),
            'after': draw(F.traces(vs, n=draw(st.sampled_from([1, 2, 4]))))}


def check_reject_live(case):
    """A live online monitor whose sampling period is changed so that a bound is no longer a multiple of it: reset() (which
    rebuilds the operators) and every later call are rejected with RTAMTException - never a value, never another exception - until
    the period fits again; then reset() makes it a fresh monitor."""
    from ..monitors import build
    f = from_json(case['formula'])
    mode = case['mode']
    used = F.fvars(f)
    labels = ['mode:live-' + mode, 'updates-before:%d' % case['before']]
    if not used:
        return DISCARD('no-variable', labels)
    if any(o in F.UNBOUNDED_FUTURE for o in F.ops(f)) or (mode == 'online' and F.has_future(f)):
        return DISCARD('unsupported-online', labels)
    p1, p2 = case['p1'], case['p2']
    bounds = [b * p1 for x in F.subterms(f) if x[0] in ('tun', 'tbin') for b in (x[2], x[3])]
    if all(b % p2 == 0 for b in bounds):
        return DISCARD('still-on-grid', labels)
    feed = [v for v in case['vars'] if v in used]
    text = 'out = ' + F.show(f, lambda a, b: '[%d,%d]' % (a * p1, b * p1))
    desc = 'mode %s, default unit ms, period %d ms, then %d ms\nspec: %s' % (mode, p1, p2, text)
    try:
        spec = build('dt_on', text, feed, unit='ms', period=(p1, 'ms'), pastify=(mode == 'pastified'))
        for i in range(case['before']):
            spec.update(i * p1, [(v, float(case['trace'][v][i])) for v in feed])
    except Exception as e:  # noqa
        return DISCARD('set-up-raises(C17):' + type(e).__name__, labels)
    spec.set_sampling_period(p2, 'ms')
    hist = 'parse%s, %d update(s), set_sampling_period(%d, ms)' % (' + pastify' if mode == 'pastified' else '', case['before'], p2)
    for c in case['calls']:
        try:
            if c == 'reset':
                r = spec.reset()
            else:
                r = spec.update(0, [(v, 1.0) for v in feed])
        except RecursionError:
            raise
        except Exception as e:  # noqa
            o = exc_outcome(e)
            if not o[2]:
                return FAIL('off-grid-wrong-exception:live:%s:%s' % (c, o[1]), desc + '\nafter %s: %s() raised %s (not RTAMTException): %s at %s' % (hist, c, o[1], o[3], o[4]), labels)
        else:
            return FAIL('off-grid-accepted:live:' + c, desc + '\nafter %s: %s() returned %r although a bound is not a multiple of the sampling period' % (hist, c, r), labels)
        hist += ', %s() rejected' % c
    # back on the grid: reset() gives a fresh monitor
    got, want = [], []
    try:
        spec.set_sampling_period(p1, 'ms')
        spec.reset()
        fresh = build('dt_on', text, feed, unit='ms', period=(p1, 'ms'), pastify=(mode == 'pastified'))
        n2 = len(case['after'][case['vars'][0]])
        for i in range(n2):
            args = [(v, float(case['after'][v][i])) for v in feed]
            got.append(spec.update(i * p1, list(args)))
            want.append(fresh.update(i * p1, list(args)))
    except RecursionError:
        raise
    except Exception as e:  # noqa
        o = exc_outcome(e)
        return FAIL('live-recover-raises:%s' % o[1], desc + '\nafter %s, set_sampling_period(%d, ms), reset(): raised %s: %s at %s' % (hist, p1, o[1], o[3], o[4]), labels)
    if len(got) != len(want) or not all(same(a, b, False) for a, b in zip(got, want)) or spec.sampling_violation_counter != fresh.sampling_violation_counter:
        return FAIL('live-recover-differs', desc + '\nafter %s, set_sampling_period(%d, ms), reset(): %r (counter %r)\nfresh monitor: %r (counter %r)' % (
            hist, p1, got, spec.sampling_violation_counter, want, fresh.sampling_violation_counter), labels)
    return PASS(case['before'] >= 1 and len(case['calls']) >= 2, labels)


# ---- dense lane ------------------------------------------------------------

@st.composite
def dense_cases(draw, tier):
    prof = DENSE.copy(max_depth=3, max_bound=8)
    f, vs = draw(F.formulas(prof))
    sig = {v: draw(grid_signal(0, max_samples=6)) for v in vs}
    du = draw(st.sampled_from(['s', 'ms', 'us']))
    choices = draw(st.lists(st.integers(0, 11), min_size=12, max_size=12))
    du2 = draw(st.sampled_from([u for u in ('s', 'ms', 'us', 'ns') if U[u] < U[du]]))
    return {'formula': f, 'vars': vs, 'signals': sig, 'unit': du, 'unit2': du2, 'choices': choices}


def check_dense(case):
    f = from_json(case['formula'])
    vs = list(case['vars'])
    used = F.fvars(f)
    labels = ['mode:dense'] + feature_labels(f)
    if not used:
        return DISCARD('no-variable', labels)
    feed = [v for v in vs if v in used]
    du, du2 = case['unit'], case['unit2']
    q = Fraction(1, 4)                      # quantum: a quarter of the default unit
    q_ns = q * U[du]
    sig = {v: [[float(k * q), float(x)] for k, x in case['signals'][v]] for v in feed}
    scale = Fraction(U[du], U[du2])          # integer >= 1000
    sig2 = {v: [[float(k * q * scale), float(x)] for k, x in case['signals'][v]] for v in feed}
    bare = 'out = ' + F.show(f, F.make_scaled_bound_printer(q))
    sp = Speller(q_ns, du, case['choices'])
    try:
        spelled = 'out = ' + F.show(f, sp)
        bare2 = 'out = ' + F.show(f, F.make_scaled_bound_printer(q * scale))
    except (AssertionError, TypeError, ZeroDivisionError):
        return DISCARD('unprintable', labels)
    o0 = run_ct_off(bare, feed, sig, unit=du)
    o1 = run_ct_off(spelled, feed, sig, unit=du)
    o2 = run_ct_off(bare2, feed, sig2, unit=du2)
    desc = 'default unit %s\nbare:    %s\nspelled: %s\nin %s:   %s\nsignals: %s' % (du, bare, spelled, du2, bare2, sig)
    if o0[0] != 'ok':
        return DISCARD('bare-raises(C17)', labels)
    for name, o in (('spelled', o1), ('restated', o2)):
        if o[0] != 'ok':
            return FAIL('dense-%s-raises:%s' % (name, o[1]), desc + '\n%s raised %s: %s at %s' % (name, o[1], o[3], o[4]), labels)
        if check_shape(o[1]):
            return FAIL('dense-shape', desc + '\n' + check_shape(o[1]), labels)
    # compare as step functions on the grid (cell starts and midpoints up to the earliest end)
    kend = min(case['signals'][v][-1][0] for v in feed)
    for k2 in range(0, 2 * kend + 1):
        t = Fraction(k2, 2) * q
        a = step_at(o0[1], float(t))
        b = step_at(o1[1], float(t))
        c = step_at(o2[1], float(t * scale))
        if a is None or b is None or not same(a, b, needs_tolerance(f)):
            return FAIL('dense-spelling-differs', desc + '\nat t=%s: bare %r, spelled %r\nbare result: %r\nspelled result: %r' % (float(t), a, b, o0[1], o1[1]), labels)
        if c is None or not same(a, c, needs_tolerance(f)):
            return FAIL('dense-unit-change-differs', desc + '\nat t=%s: in %s %r, in %s %r' % (float(t), du, a, du2, c), labels)
    bounded = any(s[0] in ('tun', 'tbin') for s in F.subterms(f))
    return PASS(bounded and spelled != bare, labels)


# ---- dense online lane -----------------------------------------------------

DENSE_ON = DENSE.copy(un_temp=('once', 'historically'), bin_temp=('since',), tbin=('since',), max_depth=3, max_bound=8)


@st.composite
def dense_online_cases(draw, tier):
    c = draw(dense_cases(tier))
    f, vs = draw(F.formulas(DENSE_ON))
    c['formula'], c['vars'] = f, vs
    c['signals'] = {v: draw(grid_signal(0, max_samples=8)) for v in vs}
    # the input is handed over in one call or cut in two at a grid instant
    c['cut'] = draw(st.sampled_from([None, None, 1, 2, 3, 5, 8]))
    return c


def check_dense_online(case):
    """The dense lane for the online monitor (pastified when the formula looks ahead): the three notations of one
    configuration must report the same step function over the same span, however the bounds are spelled."""
    from ..monitors import run_ct_on
    f = from_json(case['formula'])
    used = F.fvars(f)
    labels = ['mode:dense-online'] + feature_labels(f)
    if not used:
        return DISCARD('no-variable', labels)
    feed = [v for v in case['vars'] if v in used]
    past = F.has_future(f)
    if past and F.horizon(f) is None:
        return DISCARD('unbounded-online', labels)
    du, du2 = case['unit'], case['unit2']
    q = Fraction(1, 4)
    q_ns = q * U[du]
    scale = Fraction(U[du], U[du2])
    cut = case.get('cut')

    def batches(sc):
        sig = {v: [[float(k * q * sc), float(x)] for k, x in case['signals'][v]] for v in feed}
        if cut is None:
            return [sig]
        first = {v: [p for (k, _), p in zip(case['signals'][v], sig[v]) if k <= cut] for v in feed}
        second = {v: [p for (k, _), p in zip(case['signals'][v], sig[v]) if k > cut] for v in feed}
        return [first, second]
    bare = 'out = ' + F.show(f, F.make_scaled_bound_printer(q))
    sp = Speller(q_ns, du, case['choices'])
    try:
        spelled = 'out = ' + F.show(f, sp)
        bare2 = 'out = ' + F.show(f, F.make_scaled_bound_printer(q * scale))
    except (AssertionError, TypeError, ZeroDivisionError):
        return DISCARD('unprintable', labels)
    o0 = run_ct_on(bare, feed, batches(1), unit=du, pastify=past)
    o1 = run_ct_on(spelled, feed, batches(1), unit=du, pastify=past)
    o2 = run_ct_on(bare2, feed, batches(scale), unit=du2, pastify=past)
    desc = 'default unit %s%s, input cut at cell %s\nbare:    %s\nspelled: %s\nin %s:   %s\nsignals (cells of a quarter unit): %s' % (
        du, ', pastified' if past else '', cut, bare, spelled, du2, bare2, {v: case['signals'][v] for v in feed})
    if o0[0] != 'ok':
        return DISCARD('bare-raises(C05/C17)', labels)
    flat = []
    for name, o in (('bare', o0), ('spelled', o1), ('restated', o2)):
        if o[0] != 'ok':
            return FAIL('dense-online-%s-raises:%s' % (name, o[1]), desc + '\n%s raised %s: %s at %s' % (name, o[1], o[3], o[4]), labels)
        cat = [p for out in o[1] for p in out]
        if check_shape(cat):
            return DISCARD('shape(C05)', labels)
        flat.append(cat)
    c0, c1, c2 = flat
    if not c0:
        if c1 or c2:
            return FAIL('dense-online-span-differs', desc + '\nbare: %r\nspelled: %r\nrestated: %r' % (c0, c1, c2), labels)
        return PASS(False, labels)
    if not c1 or not c2 or (c1[0][0], c1[-1][0]) != (c0[0][0], c0[-1][0]) or \
            (Fraction(c2[0][0]), Fraction(c2[-1][0])) != (Fraction(c0[0][0]) * scale, Fraction(c0[-1][0]) * scale):
        return FAIL('dense-online-span-differs', desc + '\nbare: %r\nspelled: %r\nrestated: %r' % (c0, c1, c2), labels)
    k_lo = int(Fraction(c0[0][0]) / q * 2)
    k_hi = int(Fraction(c0[-1][0]) / q * 2)
    for k2 in range(k_lo, k_hi + 1):
        t = Fraction(k2, 2) * q
        if not (Fraction(c0[0][0]) <= t <= Fraction(c0[-1][0])):
            continue
        a = step_at(c0, float(t))
        b = step_at(c1, float(t))
        c = step_at(c2, float(t * scale))
        if a is None or b is None or not same(a, b, needs_tolerance(f)):
            return FAIL('dense-online-spelling-differs', desc + '\nat t=%s: bare %r, spelled %r\nbare result: %r\nspelled result: %r' % (float(t), a, b, c0, c1), labels)
        if c is None or not same(a, c, needs_tolerance(f)):
            return FAIL('dense-online-unit-change-differs', desc + '\nat t=%s: in %s %r, in %s %r\nresults: %r\n%r' % (float(t), du, a, du2, c, c0, c2), labels)
    bounded = any(x[0] in ('tun', 'tbin') for x in F.subterms(f))
    return PASS(bounded and spelled != bare, labels)


@st.composite
def dense_decimal_cases(draw, tier):
    """Dense time, default unit ms or us, time stamps and bounds whole tens of the default unit; the bounds are also spelled
    as decimals of the next coarser unit (1070 ms = 1.07 s): many of these decimals have no exact binary representation."""
    du = draw(st.sampled_from(['ms', 'us']))
    ops = st.sampled_from(['once', 'historically', 'eventually', 'always'])
    def bounded(g):
        a = draw(st.sampled_from([0, 0, 10, 70, 1070, 2010, 2030, 4020, 330])) if draw(st.booleans()) else 10 * draw(st.integers(0, 420))
        b = a + 10 * draw(st.integers(0, 300))
        return ['tun', draw(ops), a, b, g]
    x = ['var', 'x']
    f = bounded(draw(st.sampled_from([x, ['pred', '>=', x, ['const', 1.0]]])))
    k = draw(st.integers(0, 2))
    if k == 1:
        f = bounded(f)
    elif k == 2:
        f = ['bin', draw(st.sampled_from(['and', 'or'])), f, bounded(['pred', '<', x, ['const', 2.0]])]
    t = 0
    sig = []
    for _ in range(draw(st.integers(2, 14))):
        sig.append([t, draw(st.sampled_from([0.0, 1.0, -1.0, 2.0, 5.0, -3.0]))])
        t += 10 * draw(st.sampled_from([1, 7, 33, 100, 107, 201, 402]))
    return {'formula': f, 'unit': du, 'signal': sig}


def check_dense_decimal(case):
    f = from_json(case['formula'])
    du = case['unit']
    coarse = {'ms': 's', 'us': 'ms'}[du]
    labels = ['mode:dense-decimal', 'unit:' + du]

    def bare(a, b):
        return '[%d,%d]' % (a, b)

    def spelled(a, b):
        return '[%s%s,%s%s]' % (decimal_text(Fraction(a, 1000)), coarse, decimal_text(Fraction(b, 1000)), coarse)
    t0, t1 = 'out = ' + F.show(f, bare), 'out = ' + F.show(f, spelled)
    sig = {'x': [[float(t), float(v)] for t, v in case['signal']]}
    o0 = run_ct_off(t0, ['x'], sig, unit=du)
    o1 = run_ct_off(t1, ['x'], sig, unit=du)
    desc = 'default unit %s\nbounds in %s: %s\nbounds in %s: %s\nsignal: %s' % (du, du, t0, coarse, t1, sig)
    if o0[0] != 'ok':
        return DISCARD('bare-raises(C17)', labels)
    if o1[0] != 'ok':
        return FAIL('dense-spelled-raises:%s' % o1[1], desc + '\nraised %s: %s at %s' % (o1[1], o1[3], o1[4]), labels)
    if o0[1] != o1[1]:
        return FAIL('dense-decimal-spelling-differs', desc + '\nresult with the bounds in %s: %r\nresult with the bounds in %s: %r' % (du, o0[1], coarse, o1[1]), labels)
    return PASS(len(o0[1]) >= 2, labels)


def cand_dense(case):
    from ..common import formula_candidates
    for f2 in formula_candidates(from_json(case['formula'])):
        if f2[0] == 'const' or not F.fvars(f2):
            continue
        c = dict(case)
        c['formula'] = f2
        yield c


@st.composite
def twin_cases(draw, tier):
    """Two copies of one bounded operator over the same operands whose intervals show the same numerals with
    different units ([1ms:1s] next to [1s:1s]): printed names must not make the online monitor share their state."""
    vs = list(F.VAR_POOL[:2])
    prof = PROF_PAST.copy(max_depth=2)
    p, _ = draw(F.formulas(prof, variables=vs))
    q, _ = draw(F.formulas(prof, variables=vs))
    num_a = draw(st.sampled_from([1, 2, 3]))
    num_b = draw(st.sampled_from([1, 2, 3, 5]))
    fine, coarse = draw(st.sampled_from([('ms', 's'), ('us', 'ms'), ('ms', 's')]))
    op = draw(st.sampled_from(['since'] + ['once', 'historically'] * 4))
    n = draw(st.integers(3, 12))
    if op == 'since':
        # the bounded since costs (upper bound in samples)^2 per update: keep it tiny
        num_a, num_b, n = 1, 1, 2
    return {'p': p, 'q': q, 'num_a': num_a, 'num_b': num_b, 'fine': fine, 'coarse': coarse, 'op': op, 'vars': vs,
            'trace': draw(F.traces(vs, n=n)), 'join': draw(st.sampled_from(['or', 'and', 'implies'])),
            # bare: the default unit is the fine one; one twin is written in the coarse unit, the other with the same numerals and
            # no unit at all ([0:2s] next to [0:2] under the default unit ms)
            'which': draw(st.sampled_from(['lower', 'upper', 'bare', 'bare'])),
            'zero_lower': draw(st.booleans())}


def check_twins(case):
    p, q = from_json(case['p']), from_json(case['q'])
    vs = list(case['vars'])
    fine, coarse = case['fine'], case['coarse']
    na, nb = case['num_a'], case['num_b']
    ratio = U[coarse] // U[fine]                 # 1000
    period = (1, fine)
    # interval 1: [na fine : nb coarse], interval 2: [na coarse : nb coarse]  (needs na <= nb)
    if na > nb:
        na, nb = nb, na
    k1 = (na, nb * ratio)
    upper = case.get('which') == 'upper' and na <= nb
    k2 = (na, nb) if upper else (na * ratio, nb * ratio)
    op = case['op']
    bare = case.get('which') == 'bare'
    if bare:
        if op == 'since':
            op = 'once'
        if case.get('zero_lower'):
            na = 0
        k1 = (na * ratio, nb * ratio)          # written [na coarse : nb coarse]
        k2 = (na, nb)                          # written [na : nb], read in the default unit (the fine one)
        if k1 == k2:
            return DISCARD('twins-coincide', ['mode:twins'])

    def node(k):
        return ('tbin', 'since', k[0], k[1], p, q) if op == 'since' else ('tun', op, k[0], k[1], p)
    f = ('bin', case['join'], node(k1), node(k2))
    used = F.fvars(f)
    labels = ['mode:twins', 'op:' + op]
    if not used:
        return DISCARD('no-variable', labels)
    feed = [v for v in vs if v in used]
    tr = {v: [float(x) for x in case['trace'][v]] for v in feed}
    n = len(tr[feed[0]])
    count = [0]

    def bp(a, b):
        count[0] += 1
        if bare:
            if (a, b) == k1:
                return '[%d%s:%d%s]' % (na, coarse, nb, coarse)
            if (a, b) == k2:
                return '[%d:%d]' % (na, nb)
            return '[%d%s:%d%s]' % (a, fine, b, fine)
        if (a, b) == k1:
            return '[%d%s:%d%s]' % (na, fine, nb, coarse)
        if (a, b) == k2:
            return '[%d%s:%d%s]' % ((na, fine, nb, fine) if upper else (na, coarse, nb, coarse))
        return '[%d%s:%d%s]' % (a, fine, b, fine)
    text = 'out = ' + F.show(f, bp)
    try:
        ref = dt(f, tr, n)
    except Undefined:
        return DISCARD('undefined', labels)
    kw = dict(unit=coarse, period=(1, fine, 0.1))
    tcol = [float(Fraction(i * U[fine], U[coarse])) for i in range(n)]
    if bare:
        kw = dict(unit=fine, period=(1, fine, 0.1))
        tcol = [float(i) for i in range(n)]
        labels.append('one-twin-without-unit')
    on = run_dt_on(text, feed, tr, time=tcol, **kw)
    off = run_dt_off(text, feed, tr, time=tcol, **kw)
    desc = 'spec: %s\nsampling period 1%s, default unit %s\ntrace: %s' % (text, fine, kw['unit'], tr)
    if on[0] != 'ok' or off[0] != 'ok':
        bad = on if on[0] != 'ok' else off
        return FAIL('twins-raises:%s' % bad[1], desc + '\nraised %s: %s at %s' % (bad[1], bad[3], bad[4]), labels)
    offv = [x[1] for x in off[1]]
    tol = needs_tolerance(f)
    if any(not same(a, b, tol) for a, b in zip(offv, ref)):
        return FAIL('twins-offline-differs', desc + '\noffline: %s\nreference: %s' % (fmt_vals(offv), fmt_vals(ref)), labels)
    if any(not same(a, b, tol) for a, b in zip(on[1], ref)):
        return FAIL('twins-online-differs', desc + '\nonline:  %s\noffline: %s' % (fmt_vals(on[1]), fmt_vals(offv)), labels)
    return PASS(len(set(ref)) > 1, labels)


@st.composite
def punctual_cases(draw, tier):
    """[k,k] with k up to 9999 sampling periods, the two ends spelled in two different explicit units (1.07s:1070ms)."""
    pv, pu = draw(st.sampled_from(PERIODS))
    k = draw(st.one_of(st.integers(1, 9999), st.integers(1, 200)))
    sp = spellings(k, pv * U[pu], None)
    ta, ua = draw(st.sampled_from(sp))
    others = [x for x in sp if x[1] != ua] or sp
    tb, ub = draw(st.sampled_from(others))
    return {'k': k, 'period': [pv, pu], 'a': [ta, ua], 'b': [tb, ub], 'op': draw(st.sampled_from(['once', 'historically', 'eventually', 'always'])),
            'unit': draw(st.sampled_from(UNITS)), 'x': [draw(F.values()) for _ in range(3)]}


def check_punctual(case):
    k = case['k']
    pv, pu = case['period']
    (ta, ua), (tb, ub) = case['a'], case['b']
    op = case['op']
    text = 'out = %s[%s%s:%s%s] (x >= 1)' % (op, ta, ua, tb, ub)
    labels = ['mode:punctual']
    f = ('tun', op, k, k, ('pred', '>=', ('var', 'x'), ('const', 1.0)))
    tr = {'x': [float(v) for v in case['x']]}
    ref = dt(f, tr, 3)
    o = run_dt_off(text, ['x'], tr, time=time_column(3, pv * U[pu], case['unit']), unit=case['unit'], period=(pv, pu, 0.1))
    desc = 'sampling period %s%s, default unit %s\nspec: %s  (both ends denote %d periods)\ntrace: %s' % (pv, pu, case['unit'], text, k, tr)
    if o[0] != 'ok':
        return FAIL('punctual-raises:%s@%s' % (o[1], o[4].split(':')[-1]), desc + '\nraised %s: %s at %s' % (o[1], o[3], o[4]), labels)
    got = [p[1] for p in o[1]]
    if any(not same(a, b, False) for a, b in zip(got, ref)):
        return FAIL('punctual-differs', desc + '\nresult %s, reference %s' % (fmt_vals(got), fmt_vals(ref)), labels)
    return PASS(ua != ub and ('.' in ta or '.' in tb), labels)


@st.composite
def constbound_cases(draw, tier):
    """A bound delivered through a declared constant (value text possibly with many decimals) versus the literal."""
    c = draw(punctual_cases(tier))
    c['k2'] = c['k'] + draw(st.integers(0, 3))
    c['mode'] = draw(st.sampled_from(['offline', 'online', 'pastified']))
    # declare_const() is handed a Python number instead of a text (when the shortest decimal of the float is the number meant)
    c['as_number'] = draw(st.booleans())
    return c


def check_constbound(case):
    from ..monitors import build
    k, k2 = case['k'], case['k2']
    pv, pu = case['period']
    pn = pv * U[pu]
    ta, ua = case['a']
    mode = case['mode']
    op = {'offline': case['op'], 'online': 'once' if case['op'] in ('once', 'eventually') else 'historically',
          'pastified': case['op']}[mode]
    # upper bound k2 periods written in the unit of the constant
    tb = decimal_text(Fraction(k2 * pn) / U[ua])
    labels = ['mode:constbound:' + mode]
    if tb is None:
        return DISCARD('unprintable', labels)
    lit = 'out = %s[%s%s:%s%s] (x >= 1)' % (op, ta, ua, tb, ua)
    con = 'out = %s[kb %s:%s%s] (x >= 1)' % (op, ua, tb, ua)
    tr = {'x': [float(v) for v in case['x']]}
    kw = dict(unit=case['unit'], period=(pv, pu, 0.1))
    tcol = time_column(3, pn, case['unit'])
    outs = []
    val = ta
    if case.get('as_number'):
        from decimal import Decimal
        try:
            num = int(ta) if '.' not in ta else float(ta)
            if Decimal(repr(num)) == Decimal(ta):
                val = num
                labels.append('constant-given-as-python-number')
        except (ValueError, ArithmeticError):
            pass
    for text, consts in ((lit, None), (con, [('kb', 'float', val)])):
        if mode == 'offline':
            o = run_dt_off(text, ['x'], tr, time=tcol, consts=consts, **kw)
            o = ('ok', [p[1] for p in o[1]]) if o[0] == 'ok' else o
        else:
            o = run_dt_on(text, ['x'], tr, time=tcol, consts=consts, pastify=(mode == 'pastified'), **kw)
        outs.append(o)
    desc = 'sampling period %s%s, default unit %s, %s\nliteral:  %s\nconstant: %s  with const kb = %r\ntrace: %s' % (pv, pu, case['unit'], mode, lit, con, val, tr)
    if outs[0][0] != 'ok':
        return DISCARD('literal-raises(C17):' + outs[0][1], labels)
    if outs[1][0] != 'ok':
        return FAIL('constbound-raises:%s:%s' % (mode, outs[1][1]), desc + '\nconstant spelling raised %s: %s at %s' % (outs[1][1], outs[1][3], outs[1][4]), labels)
    if any(not same(a, b, False) for a, b in zip(outs[0][1], outs[1][1])):
        return FAIL('constbound-differs:' + mode, desc + '\nliteral %s, constant %s' % (fmt_vals(outs[0][1]), fmt_vals(outs[1][1])), labels)
    return PASS('.' in ta, labels)


@st.composite
def dense_twin_cases(draw, tier):
    """Dense time: two copies of a bounded operator whose intervals show the same numerals with a different unit on ONE
    end ([1ms:2s] next to [1ms:2ms], or [1ms:2s] next to [1s:2s]); default unit = the fine unit, integer time stamps."""
    vs = list(F.VAR_POOL[:2])
    p, _ = draw(F.formulas(DENSE.copy(max_depth=2), variables=vs))
    na = draw(st.sampled_from([1, 2, 3]))
    nb = draw(st.sampled_from([2, 3, 5]))
    if na > nb:
        na, nb = nb, na
    fine, coarse = draw(st.sampled_from([('ms', 's'), ('us', 'ms')]))
    op = draw(st.sampled_from(['once', 'historically', 'eventually', 'always']))
    # bare: one twin in the coarse unit, the other with the same numerals and no unit (read in the default unit, the fine one)
    which = draw(st.sampled_from(['upper', 'lower', 'bare']))
    sig = {}
    for v in vs:
        m = draw(st.integers(2, 6))
        ks = sorted(set([0] + [draw(st.sampled_from([1, 2, 3, 5, 500, 1000, 1001, 1500, 2000, 2002, 3000, 4000, 5000, 6000])) for _ in range(m)]))
        sig[v] = [[kk, draw(F.values())] for kk in ks]
    return {'p': p, 'na': na, 'nb': nb, 'fine': fine, 'coarse': coarse, 'op': op, 'which': which, 'vars': vs, 'signals': sig,
            'join': draw(st.sampled_from(['or', 'and', 'implies']))}


def check_dense_twins(case):
    """Metamorphic: the text with look-alike intervals ([1ms:2s] next to [1ms:2ms]) against the same specification with
    every bound written in the fine unit ([1ms:2000ms] next to [1ms:2ms]); no reference needed (the domain is thousands of
    cells long)."""
    p = from_json(case['p'])
    na, nb, fine, coarse, op = case['na'], case['nb'], case['fine'], case['coarse'], case['op']
    ratio = U[coarse] // U[fine]
    k1 = (na, nb * ratio)                                   # [na fine : nb coarse]
    k2 = (na, nb) if case['which'] == 'upper' else (na * ratio, nb * ratio)
    t2 = '[%d%s:%d%s]' % ((na, fine, nb, fine) if case['which'] == 'upper' else (na, coarse, nb, coarse))
    t1 = '[%d%s:%d%s]' % (na, fine, nb, coarse)
    if case['which'] == 'bare':
        k1, t1 = (na * ratio, nb * ratio), '[%d%s:%d%s]' % (na, coarse, nb, coarse)
        k2, t2 = (na, nb), '[%d:%d]' % (na, nb)
        if k1 == k2:
            return DISCARD('twins-coincide', ['mode:dense-twins'])
    f = ('bin', case['join'], ('tun', op, k1[0], k1[1], p), ('tun', op, k2[0], k2[1], p))
    used = F.fvars(f)
    labels = ['mode:dense-twins', 'which:' + case['which']]
    if not used:
        return DISCARD('no-variable', labels)
    sig = {v: [[float(k), float(x)] for k, x in case['signals'][v]] for v in case['vars'] if v in used}
    feed = list(sig)

    def bp(a, b):
        return t1 if (a, b) == k1 else (t2 if (a, b) == k2 else '[%d%s:%d%s]' % (a, fine, b, fine))
    twin = 'out = ' + F.show(f, bp)
    plain = 'out = ' + F.show(f, lambda a, b: '[%d%s:%d%s]' % (a, fine, b, fine))
    o1 = run_ct_off(twin, feed, sig, unit=fine)
    o2 = run_ct_off(plain, feed, sig, unit=fine)
    desc = 'default unit %s\nlook-alike spelling: %s\nplain spelling:      %s\nsignals (time in %s): %s' % (fine, twin, plain, fine, sig)
    if o2[0] != 'ok':
        return DISCARD('plain-raises(C17)', labels)
    if o1[0] != 'ok':
        return FAIL('dense-twins-raises:%s' % o1[1], desc + '\nraised %s: %s at %s' % (o1[1], o1[3], o1[4]), labels)
    if check_shape(o1[1]) or check_shape(o2[1]):
        return DISCARD('shape(C04)', labels)
    kend = min(s_[-1][0] for s_ in sig.values())
    pts = set()
    for out in (o1[1], o2[1]):
        for t, _v in out:
            for d in (-0.5, 0.0, 0.5):
                if 0 <= t + d <= kend:
                    pts.add(t + d)
    for t in sorted(pts):
        x, y = step_at(o1[1], t), step_at(o2[1], t)
        if x is None or y is None or not same(x, y, False):
            return FAIL('dense-twins-differ:' + case['which'], desc + '\nlook-alike: %r\nplain:      %r\nat t=%g: %r vs %r' % (o1[1], o2[1], t, x, y), labels)
    # the same pair through the online monitor (one update; pastified when the operator looks ahead): its operators are
    # kept under printed names, which must tell the twins apart
    if not F.has_future(p):
        from ..monitors import run_ct_on
        past = op in ('eventually', 'always')
        n1 = run_ct_on(twin, feed, [sig], unit=fine, pastify=past)
        n2 = run_ct_on(plain, feed, [sig], unit=fine, pastify=past)
        if n2[0] == 'ok':
            if n1[0] != 'ok':
                return FAIL('dense-twins-online-raises:%s' % n1[1], desc + '\nonline monitor raised %s: %s at %s' % (n1[1], n1[3], n1[4]), labels)
            c1 = [q_ for out in n1[1] for q_ in out]
            c2 = [q_ for out in n2[1] for q_ in out]
            if not check_shape(c1) and not check_shape(c2):
                if bool(c1) != bool(c2) or (c1 and (c1[0][0], c1[-1][0]) != (c2[0][0], c2[-1][0])):
                    return FAIL('dense-twins-online-differ:' + case['which'], desc + '\nonline, look-alike: %r\nonline, plain:      %r' % (c1, c2), labels)
                for t in sorted(set(q_[0] + d for q_ in c1 + c2 for d in (-0.5, 0.0, 0.5))):
                    if c1 and c1[0][0] <= t <= c1[-1][0]:
                        x, y = step_at(c1, t), step_at(c2, t)
                        if x is None or y is None or not same(x, y, False):
                            return FAIL('dense-twins-online-differ:' + case['which'], desc + '\nonline, look-alike: %r\nonline, plain:      %r\nat t=%g: %r vs %r' % (c1, c2, t, x, y), labels)
                labels.append('online-compared')
    return PASS(len(pts) > 2, labels)


@st.composite
def reconfig_cases(draw, tier):
    c = draw(cases(tier, 'offline'))
    c['second'] = draw(st.sampled_from([[1, 's'], [500, 'ms'], [250, 'ms'], [2, 's'], [100, 'ms']]))
    c['first'] = draw(st.sampled_from([[1, 's'], [500, 'ms'], [1000, 'ms']]))
    c['online'] = draw(st.booleans())
    return c


def check_reconfig(case):
    """One object is evaluated under one sampling period, re-configured with set_sampling_period() and evaluated again:
    the second result must be the one a fresh object gives under the second configuration (bounds are durations)."""
    from ..monitors import build
    f = from_json(case['formula'])
    vs = [v for v in case['vars'] if v in F.fvars(f)]
    labels = ['mode:reconfigure'] + feature_labels(f)
    if not vs:
        return DISCARD('no-variable', labels)
    tr = {v: [float(x) for x in case['trace'][v]] for v in vs}
    n = len(tr[vs[0]])
    # bounds written in whole seconds: multiples of every period used here
    text = 'out = ' + F.show(f, lambda a, b: '[%ds,%ds]' % (a, b))
    p1, p2 = case['first'], case['second']
    ds = {'time': [float(i) for i in range(n)], **{v: list(tr[v]) for v in vs}}
    try:
        fresh = build('dt_off', text, vs, period=(p2[0], p2[1], 0.1)).evaluate(dict(ds))
        spec = build('dt_off', text, vs, period=(p1[0], p1[1], 0.1))
        spec.evaluate(dict(ds))
        spec.set_sampling_period(p2[0], p2[1], 0.1)
        again = spec.evaluate(dict(ds))
    except Exception as e:  # noqa
        return DISCARD('raises(C17):' + type(e).__name__, labels)
    a, b = [x[1] for x in again], [x[1] for x in fresh]
    if any(not same(x, y, False) for x, y in zip(a, b)):
        return FAIL('reconfigure-stale', 'spec: %s\ntrace: %s\nevaluated with period %s, then set_sampling_period(%s) and evaluated again: %s\nfresh object with period %s: %s' % (
            text, tr, p1, p2, fmt_vals(a), p2, fmt_vals(b)), labels)
    return PASS(p1 != p2 and F.max_bound(f) > 0 and len(set(b)) > 1, labels)


RECONF = [['s', [1, 's']], ['ms', [1, 'ms']], ['s', [500, 'ms']], ['ms', [500, 'us']], ['us', [1, 'us']], ['s', [1000, 'ms']], ['ms', [2, 'ms']]]


@st.composite
def reconfig_unit_cases(draw, tier):
    mode = draw(st.sampled_from(['offline', 'online', 'pastified']))
    c = draw(cases(tier, mode))
    # the first configuration may make every bound very long (unit s at a period of 1 ms): the object is only used briefly under it
    c['first'] = draw(st.sampled_from(RECONF + [['s', [1, 'ms']], ['ms', [1, 'us']], ['s', [100, 'ms']]]))
    c['second'] = draw(st.sampled_from(RECONF))
    c['first_updates'] = draw(st.integers(0, 4))
    # set_sampling_period() is called again even if the period stays the same?
    c['always_set_period'] = draw(st.booleans())
    return c


def check_reconfig_unit(case):
    """One object (offline, online, online after pastify) is used under one default unit and sampling period; then
    spec.unit and the sampling period are changed, the text is parsed (and pastified) again and the monitor reset: from
    then on it behaves like a fresh object under the second configuration.  Bounds are bare numbers (default unit)."""
    from ..monitors import build
    f = from_json(case['formula'])
    mode = case['mode']
    vs = [v for v in case['vars'] if v in F.fvars(f)]
    labels = ['mode:reconfigure-unit:' + mode] + feature_labels(f)
    if not vs:
        return DISCARD('no-variable', labels)
    if mode == 'online' and F.has_future(f):
        return DISCARD('future-without-pastify', labels)
    h = F.horizon(f)
    if mode == 'pastified' and h is None:
        return DISCARD('unbounded', labels)
    tr = {v: [float(x) for x in case['trace'][v]] for v in vs}
    n = len(tr[vs[0]])
    (u1, p1), (u2, p2) = case['first'], case['second']

    def scale(u, p):
        # bare bound k = k default units = k * scale sampling periods
        return Fraction(U[u], p[0] * U[p[1]])
    k1, k2 = scale(u1, p1), scale(u2, p2)
    if mode == 'offline' and k1 > 2:
        return DISCARD('first-configuration-too-long-for-offline', labels)
    if any((Fraction(b) * k).denominator != 1 for k in (k1, k2) for s_ in F.subterms(f) if s_[0] in ('tun', 'tbin') for b in (s_[2], s_[3])):
        return DISCARD('bound-off-grid', labels)
    text = 'out = ' + F.show(f)
    kind = 'dt_off' if mode == 'offline' else 'dt_on'

    def tcol(u, p, m):
        return [float(Fraction(i * p[0] * U[p[1]], U[u])) for i in range(m)]

    def run(spec, u, p, m):
        ts = tcol(u, p, m)
        if mode == 'offline':
            return [x[1] for x in spec.evaluate({'time': ts, **{v: list(tr[v][:m]) for v in vs}})]
        return [spec.update(ts[i], [(v, tr[v][i]) for v in vs]) for i in range(m)]
    try:
        fresh = run(build(kind, text, vs, unit=u2, period=(p2[0], p2[1], 0.1), pastify=(mode == 'pastified')), u2, p2, n)
        spec = build(kind, text, vs, unit=u1, period=(p1[0], p1[1], 0.1), pastify=(mode == 'pastified'))
        run(spec, u1, p1, min(n, case['first_updates']) if mode != 'offline' else n)
    except Exception as e:  # noqa
        return DISCARD('raises(C17):' + type(e).__name__, labels)
    desc = 'mode %s\nspec: %s\ntrace: %s\nfirst: unit %s, period %s; then spec.unit = %s, %s, parse()%s%s' % (
        mode, text, tr, u1, p1, u2, 'set_sampling_period(%s)' % p2 if (p2 != p1 or case.get('always_set_period', True)) else 'same period', ', pastify()' if mode == 'pastified' else '', ', reset()' if mode != 'offline' else '')
    try:
        spec.unit = u2
        if p2 != p1 or case.get('always_set_period', True):
            spec.set_sampling_period(p2[0], p2[1], 0.1)
        spec.parse()
        if mode == 'pastified':
            spec.pastify()
        if mode != 'offline':
            spec.reset()
        again = run(spec, u2, p2, n)
    except Exception as e:  # noqa
        o = exc_outcome(e)
        return FAIL('reconfigure-unit-raises:%s:%s' % (mode, o[1]), desc + '\nraised %s: %s at %s\nfresh object: %s' % (o[1], o[3], o[4], fmt_vals(fresh)), labels)
    start = h if mode == 'pastified' else 0
    if any(not same(x, y, False) for x, y in zip(again[start:], fresh[start:])):
        return FAIL('reconfigure-unit-stale:' + mode, desc + '\nre-configured object: %s\nfresh object under the second configuration: %s' % (fmt_vals(again), fmt_vals(fresh)), labels)
    return PASS((u1, p1) != (u2, p2) and F.max_bound(f) > 0 and len(set(fresh[start:])) > 1, labels)


LANES = [
    Lane('wide', lambda tier: cases(tier, 'offline', wide=True), check, 600, 8000, std_candidates),
    Lane('wide_online', lambda tier: cases(tier, 'online', wide=True), check, 300, 4000, std_candidates),
    Lane('twins', lambda tier: twin_cases(tier), check_twins, 250, 4000, None),
    Lane('constbound', lambda tier: constbound_cases(tier), check_constbound, 1200, 20000, None),
    Lane('punctual', lambda tier: punctual_cases(tier), check_punctual, 2500, 40000, None),
    Lane('dense_twins', lambda tier: dense_twin_cases(tier), check_dense_twins, 600, 8000, None),
    Lane('reconfigure_unit', lambda tier: reconfig_unit_cases(tier), check_reconfig_unit, 1200, 15000, std_candidates),
    Lane('reconfigure', lambda tier: reconfig_cases(tier), check_reconfig, 800, 10000, std_candidates),
    Lane('offline', lambda tier: cases(tier, 'offline'), check, 2500, 40000, std_candidates),
    Lane('online', lambda tier: cases(tier, 'online'), check, 1500, 20000, std_candidates),
    Lane('pastified', lambda tier: cases(tier, 'pastified'), check, 2500, 40000, std_candidates),
    Lane('reject', lambda tier: reject_cases(tier), check_reject, 1500, 20000, std_candidates),
    Lane('reject_live', lambda tier: reject_live_cases(tier), check_reject_live, 1500, 15000, std_candidates),
    Lane('dense_decimal', lambda tier: dense_decimal_cases(tier), check_dense_decimal, 1500, 15000, None),
    Lane('dense', lambda tier: dense_cases(tier), check_dense, 1500, 20000, cand_dense),
    Lane('dense_online', lambda tier: dense_online_cases(tier), check_dense_online, 1500, 15000, cand_dense),
]
