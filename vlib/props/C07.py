"""C07 - robustness sign and magnitude are sound w.r.t. Boolean satisfaction."""
from hypothesis import strategies as st

from .. import formula as F
from ..common import dt_cases, std_candidates, feature_labels, fmt_vals
from ..formula import Profile, from_json, show
from ..monitors import run_dt_off, run_dt_on
from ..refsem import bool_dt, Undefined, NotNumeric
from ..runner import Lane, PASS, FAIL, DISCARD

PROPERTY = 'C07'

RULE = ('iff/xor-free typed grammar whose leaves are predicates (no bare numeric operand), per monitor kind (discrete offline: all '
        'operators; discrete online: past operators; dense lanes on the grid). (a) sign lane: for every t, rho(t) > 0 => the independent '
        'Boolean evaluator says satisfied, rho(t) < 0 => violated, rho taken from the monitor. (b) lipschitz lanes (discrete and dense, offline and online): every predicate is '
        '"var cmp const"; a perturbation delta with |delta| <= 0.99*|rho(t)| per sample (dyadic, <= 1e3 if rho is infinite) is drawn and '
        'the Boolean verdict of the perturbed trace at t must equal that of the original. Lanes sign_huge_on/off: samples of magnitude up to 3e200 under products, exp and even/odd powers '
        '(results leave the float range): the reference takes an overflowing power as the correctly signed infinity, a monitor that raises OverflowError is a data fault (discarded), a monitor that answers is judged by the sign; inf - inf (NaN) is outside the domain. Non-trivial = 0 < |rho(t)| < inf at a checked '
        't and the formula has a negation/implication above a temporal operator or >= 2 temporal operators; distinct = distinct '
        '(formula, trace, kind[, perturbation]) digests.')

ASSUMPTIONS = [
    'Boolean semantics: strict/non-strict comparisons as written; prev/next weak (true at boundary), s_prev/s_next strong; empty window: once/eventually false, historically/always true',
    'rise(p) = not p(t-1) and p(t) (p(0) at t=0), fall(p) = p(t-1) and not p(t) (not p(0) at t=0)',
    'values and thresholds are dyadic so that x+delta does not round across a threshold',
]

BOOL = Profile(bin_bool=('and', 'or', 'implies'), bare_operand=False, temporal_in_arith=False,
               tbin=('since', 'until', 'unless'), un_arith=('abs', 'neg'), bin_arith=('+', '-', '*'))
BOOL_PAST = BOOL.copy(un_temp=F.UN_PAST, bin_temp=F.BIN_PAST, tun=F.TUN_PAST, tbin=F.TBIN_PAST)


def prof(tier, kind, lip):
    p = BOOL if kind == 'dt_off' else BOOL_PAST
    if lip:
        p = p.copy(const_pred_only=True)
    if tier == 'thorough':
        p = p.copy(max_depth=5, max_bound=6)
    return p


@st.composite
def cases(draw, tier, kind, lip):
    c = draw(dt_cases(prof(tier, kind, lip), max_n=10 if tier == 'quick' else 16))
    c['kind'] = kind
    if lip:
        n = len(next(iter(c['trace'].values())))
        # perturbation directions/fractions per (var, sample): multiples of 1/64 in [-63/64, 63/64]
        c['pert'] = {v: [draw(st.integers(-63, 63)) for _ in range(n)] for v in c['vars']}
        c['t'] = draw(st.integers(0, n - 1))
    return c


def monitor(kind, f, vs, tr):
    text = 'out = ' + show(f)
    if kind == 'dt_off':
        o = run_dt_off(text, vs, tr)
        return ('ok', [p[1] for p in o[1]]) if o[0] == 'ok' else o
    return run_dt_on(text, vs, tr)


def struct_nontrivial(f):
    """negation/implication above a temporal operator, or >= 2 temporal operators."""
    if F.n_temporal(f) >= 2:
        return True
    for s in F.subterms(f):
        if s[0] == 'un' and s[1] == 'not' and F.n_temporal(s[2]) >= 1:
            return True
        if s[0] == 'bin' and s[1] == 'implies' and F.n_temporal(s[2]) >= 1:
            return True
    return False


def check(case):
    f = from_json(case['formula'])
    kind = case['kind']
    vs = list(case['vars'])
    tr = {v: [float(x) for x in case['trace'][v]] for v in vs}
    n = len(tr[vs[0]])
    labels = ['kind:' + kind] + feature_labels(f, n)
    used = F.fvars(f)
    if not used:
        return DISCARD('no-variable', labels)
    feed = [v for v in vs if v in used]
    w = {v: tr[v] for v in feed}
    try:
        sat = bool_dt(f, w, n)
    except (Undefined, NotNumeric):
        return DISCARD('undefined', labels)
    o = monitor(kind, f, feed, w)
    if o[0] != 'ok':
        return DISCARD('exception(C17):%s' % o[1], labels)
    rho = o[1]
    if any(r != r for r in rho):
        return FAIL('nan', 'spec: %s\ntrace: %s\nrobustness contains NaN: %s' % (show(f), w, rho), labels)
    desc = 'spec: out = %s   [%s]\ntrace: %s\nrobustness: %s\nsatisfied:  %s' % (show(f), kind, w, fmt_vals(rho), sat)
    for t in range(n):
        if rho[t] > 0 and sat[t] is not True:
            return FAIL('sign:positive-but-violated:' + kind, desc + '\nat t=%d' % t, labels)
        if rho[t] < 0 and sat[t] is not False:
            return FAIL('sign:negative-but-satisfied:' + kind, desc + '\nat t=%d' % t, labels)
    finite_nonzero = any(0 < abs(r) < float('inf') for r in rho)
    nontrivial = finite_nonzero and struct_nontrivial(f)
    if 'pert' not in case:
        return PASS(nontrivial, labels)
    # Lipschitz lane
    t = case['t']
    r = rho[t]
    if r == 0:
        return PASS(False, labels + ['rho=0'])
    scale = abs(r) if abs(r) != float('inf') else 1000.0
    # delta = scale * k/64 * (63/64 cap): |delta| <= 0.985*|rho| < |rho|
    w2 = {}
    for v in feed:
        w2[v] = [tr[v][i] + scale * (case['pert'][v][i] / 64.0) for i in range(n)]
        for i in range(n):
            if not abs(w2[v][i] - tr[v][i]) < abs(r):
                return DISCARD('perturbation-rounding', labels)
    try:
        sat2 = bool_dt(f, w2, n)
    except (Undefined, NotNumeric):
        return DISCARD('undefined', labels)
    want = r > 0
    if sat2[t] is not want:
        return FAIL('lipschitz:' + kind, desc + '\nat t=%d rho=%g; perturbed trace %s (all |delta| < |rho|) has verdict %s' % (
            t, r, w2, sat2[t]), labels)
    return PASS(0 < abs(r) < float('inf') and F.n_temporal(f) >= 1, labels)


def candidates(case):
    for c in std_candidates(case):
        n = len(next(iter(c['trace'].values())))
        if 'pert' in case:
            c = dict(c)
            # keep perturbations aligned with the (possibly shortened) trace
            n0 = len(next(iter(case['trace'].values())))
            if n != n0:
                continue
            c['pert'] = {v: case['pert'][v] for v in c['vars']}
        yield c


# ---- dense time: sign soundness ------------------------------------------------

import math                                                        # noqa: E402
from fractions import Fraction                                     # noqa: E402
from ..dense import DENSE, DENSE_PAST, ct_cases, case_q, to_time, norm_signals, dense_text, check_shape, ct_candidates   # noqa: E402
from ..monitors import run_ct_off, run_ct_on                       # noqa: E402
from ..refsem import bool_ct                                       # noqa: E402

DBOOL = dict(bin_bool=('and', 'or', 'implies'), bare_operand=False, temporal_in_arith=False,
             un_arith=('abs', 'neg'), bin_arith=('+', '-', '*'))


@st.composite
def dense_cases(draw, tier, kind):
    p = (DENSE if kind == 'ct_off' else DENSE_PAST).copy(**DBOOL)
    if tier == 'thorough':
        p = p.copy(max_depth=4)
    c = draw(ct_cases(p, tier, max_samples=6))
    c['kind'] = kind
    return c


def check_dense(case):
    f = from_json(case['formula'])
    kind = case['kind']
    vs = list(case['vars'])
    q = case_q(case)
    sig = norm_signals(case)
    used = F.fvars(f)
    labels = ['kind:' + kind] + feature_labels(f)
    if not used:
        return DISCARD('no-variable', labels)
    sig = {v: sig[v] for v in vs if v in used}
    feed = list(sig)
    try:
        K0, Kend, sat = bool_ct(f, sig)
    except (Undefined, NotNumeric):
        return DISCARD('undefined', labels)
    text = dense_text(f, q)
    if kind == 'ct_off':
        o = run_ct_off(text, feed, to_time(sig, q))
        out = o[1] if o[0] == 'ok' else None
    else:
        o = run_ct_on(text, feed, [to_time(sig, q)])
        out = o[1][0] if o[0] == 'ok' else None
    if o[0] != 'ok' or check_shape(out) or not out:
        return DISCARD('exception-or-shape(C04/C05/C17)', labels)
    desc = 'spec: %s   [%s]\nsignals: %s\nresult: %r' % (text, kind, to_time(sig, q), out)
    hi = min(float(Kend * q), out[-1][0])
    k2 = 0
    finite = False
    while float(Fraction(k2, 2) * q) <= hi:
        t = float(Fraction(k2, 2) * q)
        if t >= out[0][0] and t >= float(K0 * q):
            rho = step_at(out, t)
            cell = int(math.floor(Fraction(k2, 2))) - K0
            b = sat[cell]
            if rho is not None and rho == rho:
                if 0 < abs(rho) < float('inf'):
                    finite = True
                if rho > 0 and b is not True:
                    return FAIL('sign:positive-but-violated:' + kind, desc + '\nat t=%g rho=%r but the Boolean semantics says %r' % (t, rho, b), labels)
                if rho < 0 and b is not False:
                    return FAIL('sign:negative-but-satisfied:' + kind, desc + '\nat t=%g rho=%r but the Boolean semantics says %r' % (t, rho, b), labels)
            elif rho is not None:
                return FAIL('nan', desc + '\nNaN in the result', labels)
        k2 += 1
    return PASS(finite and struct_nontrivial(f), labels)


from ..refsem import step_at                                       # noqa: E402


@st.composite
def dense_lip_cases(draw, tier, kind):
    p = (DENSE if kind == 'ct_off' else DENSE_PAST).copy(const_pred_only=True, **DBOOL)
    c = draw(ct_cases(p, tier, max_samples=6))
    c['kind'] = kind
    c['pert'] = {v: [draw(st.integers(-63, 63)) for _ in range(len(c['signals'][v]))] for v in c['vars']}
    c['t2'] = draw(st.integers(0, 40))        # the instant, in half cells
    return c


def check_dense_lip(case):
    f = from_json(case['formula'])
    kind = case['kind']
    vs = list(case['vars'])
    q = case_q(case)
    sig = norm_signals(case)
    used = F.fvars(f)
    labels = ['kind:' + kind, 'lipschitz'] + feature_labels(f)
    if not used:
        return DISCARD('no-variable', labels)
    sig = {v: sig[v] for v in vs if v in used}
    feed = list(sig)
    text = dense_text(f, q)
    if kind == 'ct_off':
        o = run_ct_off(text, feed, to_time(sig, q))
        out = o[1] if o[0] == 'ok' else None
    else:
        o = run_ct_on(text, feed, [to_time(sig, q)])
        out = o[1][0] if o[0] == 'ok' else None
    if o[0] != 'ok' or check_shape(out) or not out:
        return DISCARD('exception-or-shape(C04/C05/C17)', labels)
    kend = min(s[-1][0] for s in sig.values())
    hi = min(float(kend * q), out[-1][0])
    t = float(Fraction(case['t2'], 2) * q)
    if t > hi or t < out[0][0]:
        return PASS(False, labels + ['instant-outside'])
    r = step_at(out, t)
    if r is None or r != r or r == 0:
        return PASS(False, labels)
    scale = abs(r) if abs(r) != float('inf') else 1000.0
    sig2 = {}
    for v in feed:
        s2 = []
        for i, (k, x) in enumerate(sig[v]):
            y = x + scale * (case['pert'][v][i] / 64.0)
            if not abs(y - x) < abs(r):
                return DISCARD('perturbation-rounding', labels)
            s2.append((k, y))
        sig2[v] = s2
    try:
        K0, _Kend, sat2 = bool_ct(f, sig2)
    except (Undefined, NotNumeric):
        return DISCARD('undefined', labels)
    cell = int(math.floor(Fraction(case['t2'], 2))) - K0
    want = r > 0
    if sat2[cell] is not want:
        return FAIL('lipschitz:' + kind, 'spec: %s   [%s]\nsignals: %s\nresult: %r\nat t=%g rho=%g; perturbed signals %s (all |delta| < |rho|) have verdict %s' % (
            text, kind, to_time(sig, q), out, t, r, to_time(sig2, q), sat2[cell]), labels)
    return PASS(0 < abs(r) < float('inf') and F.n_temporal(f) >= 1, labels)


HUGE = [1e60, -1e60, 1e100, -1e100, 2e120, -2e120, 1e100, -1e100, 1e155, -1e155, 3e200, -3e200, 1.0, -2.0, 0.5, 3.0, 1e-200, -1e-160, 0.0, 7.0, -1e3]


@st.composite
def huge_cases(draw, tier, kind):
    """Samples of very large magnitude under products and odd / even powers: results leave the float range."""
    vs = ['x', 'y']

    def term(d):
        k = draw(st.integers(0, 6)) if d > 0 else 0
        if k <= 1:
            return ('var', draw(st.sampled_from(vs))) if draw(st.integers(0, 5)) else ('const', draw(st.sampled_from([-8.0, 0.0, 1.0, 1e150])))
        if k == 2:
            return ('bin', 'pow', ('var', draw(st.sampled_from(vs))), ('const', draw(st.sampled_from([2.0, 2.0, 3.0, 3.0, 5.0]))))
        if k == 3:
            return ('bin', '*', term(d - 1), term(d - 1))
        if k == 4:
            return ('bin', draw(st.sampled_from(['+', '-'])), term(d - 1), term(d - 1))
        if k == 5:
            return ('un', draw(st.sampled_from(['abs', 'neg'])), term(d - 1))
        return ('un', 'exp', ('var', draw(st.sampled_from(vs)))) if draw(st.booleans()) else ('var', draw(st.sampled_from(vs)))

    def pred():
        return ('pred', draw(st.sampled_from(['>=', '<=', '>', '<'])), term(2), term(1) if draw(st.booleans()) else ('const', draw(st.sampled_from([-8.0, 0.0, 1.0]))))
    past = ['once', 'historically']
    ops = past + (['eventually', 'always'] if kind == 'dt_off' else [])
    shape = draw(st.integers(0, 4))
    g = pred()
    if shape == 1:
        g = ('un', 'not', g)
    elif shape == 2:
        g = ('bin', draw(st.sampled_from(['and', 'or', 'implies'])), g, pred())
    elif shape == 3:
        g = ('un', draw(st.sampled_from(ops)), g)
    elif shape == 4:
        g = ('tun', draw(st.sampled_from(ops)), 0, draw(st.integers(0, 2)), ('un', 'not', g))
    n = draw(st.integers(1, 6))
    tr = {v: draw(st.lists(st.sampled_from(HUGE), min_size=n, max_size=n)) for v in vs}
    return {'formula': g, 'vars': vs, 'trace': tr, 'kind': kind}


def check_huge(case):
    from .. import refsem
    refsem.SATURATE = True
    try:
        # inf - inf inside a predicate is NaN: outside the domain (as in every other lane, where the typed grammar avoids it)
        f = from_json(case['formula'])
        used = [v_ for v_ in case['vars'] if v_ in F.fvars(f)]
        if used:
            w = {v_: [float(x) for x in case['trace'][v_]] for v_ in used}
            try:
                refsem.dt(f, w, len(w[used[0]]))
            except (Undefined, NotNumeric):
                return DISCARD('nan-or-undefined-in-reference', ['kind:' + case['kind'], 'huge'])
        v = check(case)
    finally:
        refsem.SATURATE = False
    if v.status == 'pass':
        f = from_json(case['formula'])
        v.nontrivial = any(s[0] == 'bin' and s[1] in ('pow', '*') for s in F.subterms(f)) or any(s[0] == 'un' and s[1] == 'exp' for s in F.subterms(f))
    return v


@st.composite
def verylong_cases(draw, tier, kind):
    """Windows of 33..48 (sometimes 63..129) samples on traces of 50..170 samples with few distinct values (exact ties inside one window)."""
    x = ('var', 'x')
    pr = ('pred', draw(st.sampled_from(['>=', '>', '<=', '<'])), x, ('const', draw(st.sampled_from([0.0, 1.0]))))
    b = draw(st.sampled_from(list(range(33, 49)) + [63, 64, 65, 66, 70, 96, 127, 128, 129]))
    a = draw(st.sampled_from([0, 0, 1, 5]))
    ops = ['once', 'historically'] + (['eventually', 'always'] if kind == 'dt_off' else [])
    f = ('tun', draw(st.sampled_from(ops)), a, b, pr)
    if draw(st.booleans()):
        f = ('un', 'not', f)
    if draw(st.booleans()):
        f = ('bin', draw(st.sampled_from(['and', 'or', 'implies'])), f, ('tun', draw(st.sampled_from(['once', 'historically'])), 0, draw(st.integers(33, 40)), ('un', 'not', pr)))
    n = max(50, b + 2) + draw(st.integers(0, 40))
    vals = st.sampled_from([0.5, 1.5, -1.0, 2.0, 5.0, -3.0, -1.0])
    return {'formula': f, 'vars': ['x'], 'trace': {'x': draw(st.lists(vals, min_size=n, max_size=n))}, 'kind': kind}


@st.composite
def giant_sign_cases(draw, tier):
    """Windows of 200..1100 samples (around 256, 512, 1024), lower bound 0 or not, on mostly flat traces with isolated extreme samples."""
    from ..common import spiky_trace, GIANT_WIDTHS
    kind = draw(st.sampled_from(['dt_off', 'dt_off', 'dt_on']))
    x = ('var', 'x')
    pr = ('pred', draw(st.sampled_from(['>=', '>', '<=', '<'])), x, ('const', draw(st.sampled_from([0.0, 1.0, 3.0, 0.5]))))
    width = draw(st.sampled_from(GIANT_WIDTHS))
    a = draw(st.sampled_from([0, 0, 1, 17, 100, 300]))
    b = a + width
    ops = ['once', 'historically'] + (['eventually', 'always'] if kind == 'dt_off' else [])
    f = ('tun', draw(st.sampled_from(ops)), a, b, pr)
    if draw(st.booleans()):
        f = ('un', 'not', f)
    if draw(st.integers(0, 2)) == 0:
        f = ('bin', draw(st.sampled_from(['and', 'or', 'implies'])), f, ('tun', draw(st.sampled_from(['once', 'historically'])), 0, draw(st.integers(250, 260)), ('un', 'not', pr)))
    n = draw(st.sampled_from([1, max(1, a), a + 2, b, b + 1, b + 2, b + 10, b + 200, b + 500, 2 * b + 5]))
    tr = draw(spiky_trace(['x'], n))
    return {'formula': f, 'vars': ['x'], 'trace': tr, 'kind': kind}


LANES = [
    Lane('sign_giant', giant_sign_cases, check, 60, 600, None),
    Lane('sign_huge_on', lambda tier: huge_cases(tier, 'dt_on'), check_huge, 1500, 20000, candidates),
    Lane('sign_huge_off', lambda tier: huge_cases(tier, 'dt_off'), check_huge, 1000, 15000, candidates),
    Lane('sign_verylong_on', lambda tier: verylong_cases(tier, 'dt_on'), check, 120, 1500, candidates),
    Lane('sign_verylong_off', lambda tier: verylong_cases(tier, 'dt_off'), check, 80, 1000, candidates),
    Lane('lip_ct_off', lambda tier: dense_lip_cases(tier, 'ct_off'), check_dense_lip, 1500, 20000, ct_candidates),
    Lane('lip_ct_on', lambda tier: dense_lip_cases(tier, 'ct_on'), check_dense_lip, 1000, 15000, ct_candidates),
    Lane('sign_ct_off', lambda tier: dense_cases(tier, 'ct_off'), check_dense, 2500, 40000, ct_candidates),
    Lane('sign_ct_on', lambda tier: dense_cases(tier, 'ct_on'), check_dense, 1500, 20000, ct_candidates),
    Lane('sign_dt_off', lambda tier: cases(tier, 'dt_off', False), check, 4000, 60000, candidates),
    Lane('sign_dt_on', lambda tier: cases(tier, 'dt_on', False), check, 2500, 40000, candidates),
    Lane('lip_dt_off', lambda tier: cases(tier, 'dt_off', True), check, 3000, 50000, candidates),
    Lane('lip_dt_on', lambda tier: cases(tier, 'dt_on', True), check, 2000, 30000, candidates),
]
