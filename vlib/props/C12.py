"""C12 - named sub-formula values are the robustness of that sub-formula."""
import copy

from .. import formula as F
from ..common import feature_labels
from ..formula import from_json
from ..modular import (KINDS, Q, decomposed, occurrences_delay, build_modular, feed, modular_texts, printer_for, mod_candidates, sub_names)
from ..monitors import build, exc_outcome
from ..refsem import same
from ..runner import Lane, PASS, FAIL, DISCARD
from .C09 import describe

PROPERTY = 'C12'

RULE = ('The decompositions of C09 (named sub-specifications through add_sub_spec or several assertions, nested, referenced several '
        'times) on the five monitor set-ups. After evaluate() / after every update(): get_value(v) of each input variable must equal the '
        'data supplied (whole list offline, current value / current batch online) and get_value(n) of each sub-specification name and of '
        'the output name must equal the result of a stand-alone specification whose text is the formula bound to n (pastified if the '
        'host was), run by the same monitor kind on the same data: the whole signal offline (one value per sample in discrete time), the '
        'value of the current update online. Lane giant: named bounded operators with windows of 200..700 samples, also two of the same kind over different variables. Lane edited: the object was parsed before with a text that binds the same names to other formulas '
        '(text replaced + parse() again), or both definitions stand in one text (the later one is in force). Lane surplus: one more declared variable that no requirement reads and that every call supplies data for; get_value() of it must return that data. Non-trivial = a named sub-formula that is temporal and nested >= 2 deep, or operand of a '
        'bounded future operator, or referenced twice; distinct = distinct (modular text, data, kind) digests.')

ASSUMPTIONS = [
    'dense-time values are compared as sample lists first and as step functions on the grid if the lists differ',
    'pastified hosts: outputs before the horizon are warm-up values and are not compared; the lane pastified_delayed concentrates on hosts in which the pastifier delays a named node',
]


def standalone(case, sub):
    """Outputs of a stand-alone specification for sub-term `sub`, fed with the case data (same chunking)."""
    c = dict(case)
    c['formula'] = sub
    c['subs'] = []
    c['consts'] = []
    c['surplus'] = None
    used_host = [v for v in case['vars'] if v in F.fvars(from_json(case['formula']))]
    # the stand-alone spec sees the same update calls: keep the host's chunk boundaries by feeding host variables
    spec = build_modular(c, inline=True)
    return feed_like_host(case, c, spec, used_host)


def feed_like_host(host, c, spec, used_host):
    kind = host['kind']
    if kind.startswith('dt'):
        return feed(c, spec)
    # dense online: use the host's cut instants
    from ..dense import to_time
    sub_used = [v for v in host['vars'] if v in F.fvars(from_json(c['formula']))]
    sig = to_time({v: [(int(k), float(x)) for k, x in host['signals'][v]] for v in used_host}, Q)
    if kind == 'ct_off':
        return [spec.evaluate(*[[v, sig[v]] for v in sub_used])]
    ts = sorted(set(t for v in used_host for t, _ in sig[v]))
    nch = min(host.get('chunks', 1), len(ts))
    step = max(1, len(ts) // nch)
    cuts = [ts[i] for i in range(step, len(ts), step)][:nch - 1]
    outs = []
    lo = -1.0
    for hi in cuts + [float('inf')]:
        outs.append(spec.update(*[[v, [s for s in sig[v] if lo < s[0] <= hi]] for v in sub_used]))
        lo = hi
    return outs


def values_equal(kind, got, want):
    if kind == 'dt_off':
        w = [p[1] for p in want] if want and isinstance(want[0], (list, tuple)) else want
        g = [p[1] for p in got] if got and isinstance(got[0], (list, tuple)) else got
        return isinstance(g, list) and len(g) == len(w) and all(same(a, b, False) for a, b in zip(g, w))
    if kind.startswith('dt'):
        return isinstance(got, (int, float)) and same(got, want, False)
    if got == want:
        return True
    # dense time: the same step function, however equal consecutive samples are merged
    if not (isinstance(got, list) and isinstance(want, list)) or bool(got) != bool(want):
        return False
    if not got:
        return True
    try:
        if got[0][0] != want[0][0] or got[-1][0] != want[-1][0]:
            return False
        ts = sorted(set([p[0] for p in got] + [p[0] for p in want]))
        pts = list(ts) + [(a + b) / 2.0 for a, b in zip(ts, ts[1:])]
        from ..refsem import step_at
        return all(same(step_at(got, t), step_at(want, t), False) for t in pts)
    except Exception:
        return False


def check_lane(case, finding_lane=False):
    kind = case['kind']
    f = from_json(case['formula'])
    subs = [from_json(s) for s in case['subs']]
    names = sub_names(case)
    labels = ['kind:' + kind, 'subs:%d' % len(subs)] + feature_labels(f)
    used = [v for v in case['vars'] if v in F.fvars(f)]
    if not used:
        return DISCARD('no-variable', labels)
    if kind == 'dt_on_past' and F.horizon(f) is None:
        return DISCARD('unbounded', labels)
    pastified = kind == 'dt_on_past'
    delayed = {}
    if pastified:
        for n, s in zip(names, subs):
            delayed[n] = any(d != 0 for d in occurrences_delay(f, s))
        for v in used:
            delayed[v] = any(d != 0 for d in occurrences_delay(f, ('var', v)))
    if finding_lane and not any(delayed.values()):
        return DISCARD('not-in-class', labels)
    if any(delayed.values()):
        labels.append('name-delayed-by-pastifier')
    delayed = {}     # the delayed-input defect is fixed (KNOWN_FINDINGS.txt): every name is compared
    got = {}
    sur = case.get('surplus') if not case.get('surplus_is_sub') else None      # (a column named like a requirement: get_value() is the requirement)
    supplied = []

    def collect(spec, i):
        for n in names + ['out'] + used + ([sur] if sur else []):
            try:
                got.setdefault(n, []).append(copy.deepcopy(spec.get_value(n)))
            except Exception as e:  # noqa
                got.setdefault(n, []).append(('exc', type(e).__name__, str(e)[:80]))
    try:
        host = build_modular(case, inline=False)
        outs = feed(case, host, collect, supplied)
    except Exception as e:  # noqa
        return DISCARD('host-raises(C09/C17):' + type(e).__name__, labels)
    if case.get('surplus_is_sub'):
        labels.append('data-column-named-like-a-requirement')
    if sur:
        # a declared variable that no requirement reads is an input variable too: the data supplied for it
        labels.append('surplus-variable')
        for i, want in enumerate(supplied):
            g = got[sur][i]
            if isinstance(g, tuple) and g and g[0] == 'exc':
                return FAIL('get_value-raises:%s:%s' % (kind, g[1]), describe(case) + '\nget_value(%r) of the declared variable that no requirement reads, after call %d, raised %s: %s; data supplied: %r' % (sur, i, g[1], g[2], want), labels)
            if g != want:
                return FAIL('input-value-differs:' + kind, describe(case) + '\nget_value(%r) of the declared variable that no requirement reads, after call %d: %r, data supplied: %r' % (sur, i, g, want), labels)
    ncalls = len(outs)
    desc = describe(case)
    # expected values
    checks = []
    try:
        for n, s in list(zip(names, subs)) + [('out', f)]:
            checks.append((n, standalone(case, s)))
    except Exception as e:  # noqa
        return DISCARD('standalone-raises(C17):' + type(e).__name__, labels)
    worst = None
    for n, exp in checks:
        if len(exp) != ncalls:
            return DISCARD('HARNESS:call-count', labels)
        for i in range(ncalls):
            g = got[n][i]
            if isinstance(g, tuple) and g and g[0] == 'exc':
                return FAIL('get_value-raises:%s:%s' % (kind, g[1]), desc + '\nget_value(%r) after call %d raised %s: %s' % (n, i, g[1], g[2]), labels)
            ok = values_equal(kind, g, exp[i])
            if not ok:
                msg = desc + '\nget_value(%r) after call %d: %r\nstand-alone specification: %r' % (n, i, g, exp[i])
                if pastified and delayed.get(n):
                    if finding_lane:
                        worst = worst or ('pastified-name-delayed', msg)
                elif pastified and i < (F.horizon(f) or 0):
                    continue      # warm-up outputs are unconstrained
                else:
                    return FAIL('name-value-differs:' + kind, msg, labels)
    # input variables
    for v in used:
        for i in range(ncalls):
            g = got[v][i]
            if kind == 'dt_off':
                want = [float(x) for x in case['trace'][v]]
                ok = g == want
            elif kind.startswith('dt'):
                want = float(case['trace'][v][i])
                ok = g == want
            else:
                want = None
                ok = isinstance(g, list)    # dense: the batch supplied; checked for shape only (batching is C05's business)
            if not ok:
                msg = desc + '\nget_value(%r) after call %d: %r, data supplied: %r' % (v, i, g, want)
                if pastified and delayed.get(v):
                    if finding_lane:
                        worst = worst or ('pastified-name-delayed', msg)
                elif isinstance(g, tuple):
                    return FAIL('get_value-raises:%s:%s' % (kind, g[1]), msg, labels)
                else:
                    return FAIL('input-value-differs:' + kind, msg, labels)
    if worst:
        return FAIL(worst[0], worst[1], labels)
    allsub = list(F.subterms(f))
    nt = False
    for s in subs:
        if (F.n_temporal(s) >= 1 and F.depth(s) >= 2) or allsub.count(s) >= 2:
            nt = True
        for g in allsub:
            if g[0] in ('tun', 'tbin') and g[1] in ('eventually', 'always', 'until') and s in F.children(g):
                nt = True
    return PASS(bool(subs) and nt, labels)


def check(case):
    return check_lane(case)


def check_finding(case):
    return check_lane(case, finding_lane=True)


LANES = [Lane(k, (lambda kk: lambda tier: decomposed(kk, tier))(k), check, 1200, 15000, mod_candidates) for k in KINDS]


def delayed_hosts(tier):
    """Pastified hosts in which an input variable stands directly next to a sub-formula with positive horizon."""
    from hypothesis import strategies as st

    @st.composite
    def mk(draw):
        c = draw(decomposed('dt_on_past', tier))
        v = ('var', draw(st.sampled_from(c['vars'])))
        f = from_json(c['formula'])
        if not F.horizon(f):
            b = draw(st.integers(1, 2))
            f = ('tun', draw(st.sampled_from(['eventually', 'always'])), draw(st.integers(0, b)), b, f)
        op = draw(st.sampled_from(['and', 'or', 'implies']))
        if draw(st.integers(0, 2)) == 0:
            # a user-written pure delay as a named sub-specification: a = once[k,k](x)
            k = draw(st.integers(1, 3))
            d = ('tun', draw(st.sampled_from(['once', 'historically'])), k, k, v)
            c['formula'] = ('bin', op, d, f)
            c['subs'] = [d] + [s for s in c['subs'] if from_json(s) != d]
            c['subs'].sort(key=lambda s: (F.size(from_json(s)), repr(s)))
            return c
        c['formula'] = ('bin', op, v, f) if draw(st.booleans()) else ('bin', op, f, v)
        return c
    return mk()


def edited_hosts(tier):
    """The specification object was parsed before with another text that binds the same names (sub0, sub1, out) to other
    formulas; the text is then replaced and parsed again (pastified if the kind asks for it)."""
    from hypothesis import strategies as st

    @st.composite
    def mk(draw):
        kind = draw(st.sampled_from(KINDS))
        c = draw(decomposed(kind, tier))
        p = draw(decomposed(kind, tier))
        if not c['subs']:
            cands = [s for s in set(F.subterms(from_json(c['formula']))) if s[0] not in ('var', 'const') and s != from_json(c['formula']) and F.fvars(s)]
            if cands:
                c['subs'] = [sorted(cands, key=lambda s: (F.size(s), repr(s)))[0]]
        c['delivery'] = 'assertions'
        c['consts'] = []
        c['bound_const'] = None
        # the previous text talks about the declared variables (reparse: the new text may not use all of them) or, when
        # both definitions stand in one text, about the variables the new text uses
        mode = draw(st.sampled_from(['reparse', 'reparse', 'redefine']))
        target = c['vars'] if mode == 'reparse' else ([v for v in c['vars'] if v in F.fvars(from_json(c['formula']))] or c['vars'])
        rename = dict(zip(p['vars'], target * len(p['vars'])))

        def ren(g):
            if g[0] == 'var':
                return ('var', rename.get(g[1], target[0]))
            return tuple(ren(x) if isinstance(x, tuple) else x for x in g)
        c['previous'] = {'formula': ren(from_json(p['formula'])), 'subs': [ren(from_json(s)) for s in p['subs']],
                         'mode': mode}
        used_new = [v for v in c['vars'] if v in F.fvars(from_json(c['formula']))]
        others = [v for v in c['vars'] if v not in used_new[:1]]
        if mode == 'reparse' and used_new and others and draw(st.integers(0, 3)) == 0:
            # a signal of the new text was a requirement name of the previous text, which talks about the other variables
            v0 = used_new[0]
            rename = dict(zip(p['vars'], others * len(p['vars'])))
            target = others
            c['previous'] = {'formula': ren(from_json(p['formula'])), 'subs': [ren(from_json(s)) for s in p['subs']],
                             'mode': mode, 'signal_was_requirement': v0,
                             # the name is declared through the API (as the README does for requirement names) or left to the parser
                             'declare_was_req': draw(st.booleans())}
        return c
    return mk()


def cand_edited(case):
    for c in mod_candidates(case):
        yield c
    prev = case['previous']
    if prev['subs']:
        for i in range(len(prev['subs'])):
            yield dict(case, previous=dict(prev, subs=prev['subs'][:i] + prev['subs'][i + 1:]))
    from ..common import formula_candidates
    for f2 in formula_candidates(from_json(prev['formula'])):
        if not F.fvars(f2):
            continue
        st2 = set(F.subterms(f2))
        yield dict(case, previous=dict(prev, formula=f2, subs=[s for s in prev['subs'] if from_json(s) in st2 and from_json(s) != f2]))


def surplus_hosts(tier):
    """The decompositions with one more declared variable that no requirement reads and that every call supplies data for
    (somewhere among the other variables of the call)."""
    from hypothesis import strategies as st

    @st.composite
    def mk(draw):
        c = draw(decomposed(draw(st.sampled_from(KINDS)), tier))
        c['surplus'] = 'spare'
        c['surplus_pos'] = draw(st.integers(0, 3))
        if c['subs'] and c['kind'].startswith('dt') and draw(st.integers(0, 2)) == 0:
            # the data carry a column / an entry under the name of a requirement (a log that recorded it): it is not an input
            c['surplus'] = draw(st.sampled_from(sub_names(c)))
            c['surplus_is_sub'] = True
        return c
    return mk()


LANES.append(Lane('surplus', surplus_hosts, check, 1200, 12000, mod_candidates))
LANES.append(Lane('edited', edited_hosts, check, 1000, 12000, cand_edited))
LANES.append(Lane('pastified_delayed', delayed_hosts, check_finding, 800, 8000, mod_candidates))


def giant_hosts(tier):
    """Named bounded operators with windows of 200..1100 samples (two of the same kind over different variables in one case in
    five), discrete time offline, online and online after pastify."""
    from hypothesis import strategies as st
    from ..common import giant_cases

    @st.composite
    def mk(draw):
        kind = draw(st.sampled_from(['dt_off', 'dt_on', 'dt_on', 'dt_on_past']))
        ops = F.TUN_PAST + (F.TUN_FUT if kind != 'dt_on' else ())
        c = draw(giant_cases(ops, lengths='long' if kind == 'dt_on_past' else 'any', max_width=700))
        f = from_json(c['formula'])
        subs = sorted(set(x for x in F.subterms(f) if x[0] == 'tun' and x[3] - x[2] >= 200 and x != f), key=lambda x: (F.size(x), repr(x)))
        c.update({'kind': kind, 'subs': subs[:2], 'consts': [], 'bound_const': None, 'delivery': draw(st.sampled_from(['add_sub_spec', 'assertions'])),
                  'declare_names': draw(st.booleans()), 'decor': None, 'via_file': False, 'late_inline': None, 'extra': None})
        return c
    return mk()


LANES.append(Lane('giant', giant_hosts, check, 60, 600, None))
