"""C11 - evaluation is pure: caller data untouched, repeatable, isolated, deterministic."""
import copy
import json
import os
import subprocess
import sys
from fractions import Fraction

from hypothesis import strategies as st

from .. import formula as F
from ..common import formula_candidates, feature_labels
from ..dense import DENSE, DENSE_PAST, grid_signal, to_time, dense_text
from ..formula import Profile, from_json, show
from ..monitors import build, exc_outcome
from ..runner import Lane, PASS, FAIL, DISCARD, Stats, jsonable, ROOT

PROPERTY = 'C11'

RULE = ('Lane inputs: for each monitor kind (dt_off, dt_on, ct_off, ct_on) a generated formula and data; every argument is deep-copied '
        'before evaluate()/each update() and compared structurally afterwards (bare variables under bounded future operators with '
        'bound >= trace length are forced: the padding path). Lane repeat: evaluate() on one offline object with data A, then B, then '
        'A again: third result == first. Lane isolation_giant: two or three discrete-time objects whose bounded operators have windows of 200..700 samples, updated in turns. Lane isolation: two or three specification objects of different kinds with a generated '
        'interleaving of their calls; each object\'s outputs must equal those of a run in which it was alone. Lane hashseed: one batch '
        'of generated cases (multi-variable, sub-specifications, io declarations) is executed in sub-processes with PYTHONHASHSEED in '
        '{0,1,2,random} and the JSON outputs are compared byte-wise. Lane after_failure: an offline object with sub-specifications whose last '
        'requirement divides by / takes the root of a signal; history [evaluate(A)], evaluate(B) with B making that operation raise after the '
        'earlier requirements were evaluated, evaluate(A): result and get_value of every name equal those of a fresh object (and the first result). '
        'Lane explain_between: evaluate(A), explain(), evaluate(A), explain(), evaluate(B), explain(), evaluate(A) on one discrete offline object under drawn sampling periods / units: every result equals that of a fresh object. Non-trivial = inputs: bounded future operator over a bare variable '
        'or n <= bound; repeat: temporal operator and A != B; isolation: >= 2 objects with stateful operators actually interleaved; '
        'distinct = distinct case digests.')

ASSUMPTIONS = [
    'structural equality (==, same lengths, same element types) of the caller\'s lists/dicts before and after each call',
    'exceptions are C17\'s business: a case in which a call raises is discarded here',
    'hash-seed independence is sampled at 4 seeds on one generated batch per run',
]

Q = Fraction(1, 4)
DT_FULL = Profile(tbin=('since', 'until', 'unless'), max_depth=3, max_bound=6)
DT_PAST = Profile(un_temp=F.UN_PAST, bin_temp=F.BIN_PAST, tun=F.TUN_PAST, tbin=F.TBIN_PAST, max_depth=3)
KINDS = ('dt_off', 'dt_on', 'ct_off', 'ct_on')


def prof(kind):
    return {'dt_off': DT_FULL, 'dt_on': DT_PAST, 'ct_off': DENSE, 'ct_on': DENSE_PAST}[kind]


@st.composite
def one_object(draw, kind, vs=None, bare=False):
    f, vs = draw(F.formulas(prof(kind), variables=vs))
    if bare and kind == 'dt_off':
        # bounded future operator directly over a bare variable, bound possibly beyond the trace
        op = draw(st.sampled_from(['always', 'eventually']))
        b = draw(st.integers(0, 8))
        a = draw(st.integers(0, b))
        g = ('tun', op, a, b, ('var', draw(st.sampled_from(vs))))
        f = draw(st.sampled_from([g, ('bin', 'and', g, f), ('bin', 'or', f, g)]))
    c = {'kind': kind, 'formula': f, 'vars': vs}
    if kind.startswith('dt'):
        n = draw(F.trace_lengths(8))
        c['trace'] = draw(F.traces(vs, n=n))
    else:
        c['signals'] = {v: draw(grid_signal(0, max_samples=5)) for v in vs}
        c['cuts'] = draw(st.integers(0, 3))
        c['overlap'] = draw(st.booleans())
        c['close_inf'] = kind == 'ct_off' and draw(st.integers(0, 3)) == 0
    return c


def text_of(c):
    f = from_json(c['formula'])
    return dense_text(f, Q) if c['kind'].startswith('ct') else 'out = ' + show(f)


def calls_of(c):
    """The sequence of API calls of one object: list of (method, args) with fresh argument objects."""
    kind = c['kind']
    f = from_json(c['formula'])
    used = [v for v in c['vars'] if v in F.fvars(f)]
    if kind == 'dt_off':
        n = len(c['trace'][c['vars'][0]])
        ds = {'time': [float(i) for i in range(n)]}
        for v in used:
            ds[v] = [float(x) for x in c['trace'][v]]
        return [('evaluate', [ds])]
    if kind == 'dt_on':
        n = len(c['trace'][c['vars'][0]])
        return [('update', [i, [[v, float(c['trace'][v][i])] for v in used]]) for i in range(n)]
    sig = to_time({v: [(int(k), float(x)) for k, x in c['signals'][v]] for v in used}, Q)
    if kind == 'ct_off':
        if c.get('close_inf'):
            # the caller closes every signal with a sample at time +inf that repeats the last value (the library writes its
            # own constants like this: [[0, c], [inf, c]])
            sig = {v: [list(p) for p in sig[v]] + [[float('inf'), sig[v][-1][1]]] for v in used}
        return [('evaluate', [[v, sig[v]] for v in used])]
    # ct_on: split every signal at the same instants into 1 + cuts batches
    ts = sorted(set(t for v in used for t, _ in sig[v]))
    ncut = min(c.get('cuts', 0), max(0, len(ts) - 1))
    if ncut == 0:
        return [('update', [[v, sig[v]] for v in used])]
    step = max(1, len(ts) // (ncut + 1))
    bounds = [ts[i] for i in range(step, len(ts), step)][:ncut]
    out = []
    lo = -1.0
    last = {}
    for hi in bounds + [float('inf')]:
        batch = []
        for v in used:
            piece = [list(s) for s in sig[v] if lo < s[0] <= hi]
            if c.get('overlap') and piece and v in last:
                # the new batch starts with the sample at which the previous one ended (operators expect this shape)
                piece = [list(last[v])] + piece
            if piece:
                last[v] = piece[-1]
            batch.append([v, piece])
        if any(b[1] for b in batch):
            out.append(('update', batch))
        lo = hi
    return out


def new_spec(c):
    f = from_json(c['formula'])
    used = [v for v in c['vars'] if v in F.fvars(f)]
    if c.get('sem'):
        # interface-aware semantics: the combined class with input/output declarations
        io = {v: t for v, t in (c.get('io') or {}).items() if v in used and t}
        return build(c['kind'][:2], text_of(c), used, semantics=c['sem'], io_types=io)
    return build(c['kind'], text_of(c), used)


def same_structure(a, b):
    if type(a) != type(b):
        return False
    if isinstance(a, (list, tuple)):
        return len(a) == len(b) and all(same_structure(x, y) for x, y in zip(a, b))
    if isinstance(a, dict):
        return list(a.keys()) == list(b.keys()) and all(same_structure(a[k], b[k]) for k in a)
    return a == b


def run_alone(c):
    spec = new_spec(c)
    outs = []
    for m, args in calls_of(c):
        outs.append(copy.deepcopy(getattr(spec, m)(*args)))
    return outs


# ---- lane inputs -----------------------------------------------------------

def check_inputs(case):
    c = case
    f = from_json(c['formula'])
    labels = ['kind:' + c['kind']] + feature_labels(f)
    if not F.fvars(f):
        return DISCARD('no-variable', labels)
    try:
        spec = new_spec(c)
    except Exception as e:  # noqa
        return DISCARD('build-raises(C14/C17)', labels)
    for m, args in calls_of(c):
        before = copy.deepcopy(args)
        try:
            getattr(spec, m)(*args)
        except Exception as e:  # noqa
            o = exc_outcome(e)
            if not same_structure(before, args):
                return FAIL('mutated-input:%s:%s' % (c['kind'], m), 'spec: %s\n%s(%r) raised %s and changed its argument to %r' % (
                    text_of(c), m, before, o[1], args), labels)
            return DISCARD('call-raises(C17):' + o[1], labels)
        if not same_structure(before, args):
            return FAIL('mutated-input:%s:%s' % (c['kind'], m), 'spec: %s\nargument of %s() before: %r\nafter:  %r' % (
                text_of(c), m, before, args), labels)
    nontrivial = True
    if c['kind'] == 'dt_off':
        n = len(c['trace'][c['vars'][0]])
        nontrivial = any(s[0] == 'tun' and s[1] in ('always', 'eventually') and (s[4][0] == 'var' or n <= s[3]) for s in F.subterms(f))
        if nontrivial:
            labels.append('padding-path')
    return PASS(nontrivial, labels)


# ---- lane repeat -----------------------------------------------------------

@st.composite
def repeat_cases(draw, tier):
    kind = draw(st.sampled_from(['dt_off', 'dt_off', 'ct_off']))
    a = draw(one_object(kind, bare=True))
    b = draw(one_object(kind, vs=a['vars']))
    b['formula'] = a['formula']
    return {'a': a, 'b': b}


def check_repeat(case):
    a, b = case['a'], case['b']
    f = from_json(a['formula'])
    labels = ['kind:' + a['kind']] + feature_labels(f)
    if not F.fvars(f):
        return DISCARD('no-variable', labels)
    try:
        spec = new_spec(a)
        (m, args1), = calls_of(a)
        (_m, args2), = calls_of(b)
        (_m, args3), = calls_of(a)
        r1 = copy.deepcopy(getattr(spec, m)(*args1))
        r2 = copy.deepcopy(getattr(spec, m)(*args2))
        r3 = copy.deepcopy(getattr(spec, m)(*args3))
        fresh = copy.deepcopy(getattr(new_spec(b), m)(*calls_of(b)[0][1]))
    except Exception as e:  # noqa
        return DISCARD('raises(C17):' + type(e).__name__, labels)
    if json.dumps(jsonable(r1)) != json.dumps(jsonable(r3)):
        return FAIL('repeat-differs:' + a['kind'], 'spec: %s\nfirst evaluate(A):  %r\nthen evaluate(B), then evaluate(A) again: %r' % (text_of(a), r1, r3), labels)
    if json.dumps(jsonable(r2)) != json.dumps(jsonable(fresh)):
        return FAIL('second-data-differs:' + a['kind'], 'spec: %s\nevaluate(B) after evaluate(A): %r\nevaluate(B) on a fresh object: %r' % (text_of(a), r2, fresh), labels)
    return PASS(F.n_temporal(f) >= 1 and json.dumps(jsonable(args1)) != json.dumps(jsonable(args2)), labels)


# ---- lane isolation --------------------------------------------------------

@st.composite
def isolation_cases(draw, tier):
    k = draw(st.sampled_from([2, 2, 3]))
    objs = [draw(one_object(draw(st.sampled_from(KINDS)))) for _ in range(k)]
    if draw(st.booleans()):
        # objects with (different) interface-aware semantics side by side; arithmetic over +-inf is avoided by the
        # usual restriction to predicates under Boolean / temporal operators
        for o in objs:
            if draw(st.integers(0, 3)) > 0:
                f, vs = draw(F.formulas(prof(o['kind']).copy(bin_bool=('and', 'or', 'implies'), bare_operand=False, temporal_in_arith=False), variables=o['vars']))
                o['formula'] = f
                o['sem'] = draw(st.sampled_from(['output_robustness', 'input_robustness', 'output_vacuity', 'input_vacuity']))
                o['io'] = {v: draw(st.sampled_from(['input', 'output', None])) for v in o['vars']}
    order = draw(st.lists(st.integers(0, k - 1), min_size=4, max_size=40))
    return {'objects': objs, 'order': order}


def check_isolation(case):
    objs = case['objects']
    labels = ['objects:%d' % len(objs)] + sorted(set('kind:' + o['kind'] for o in objs)) + sorted(set('sem:' + o['sem'] for o in objs if o.get('sem')))
    try:
        alone = [run_alone(o) for o in objs]
    except Exception as e:  # noqa
        return DISCARD('raises(C17):' + type(e).__name__, labels)
    try:
        specs = [new_spec(o) for o in objs]
        calls = [calls_of(o) for o in objs]
        pos = [0] * len(objs)
        outs = [[] for _ in objs]
        switches = 0
        last = None
        order = list(case['order']) + list(range(len(objs))) * 50
        for i in order:
            if pos[i] < len(calls[i]):
                m, args = calls[i][pos[i]]
                outs[i].append(copy.deepcopy(getattr(specs[i], m)(*args)))
                pos[i] += 1
                if last is not None and last != i:
                    switches += 1
                last = i
            if all(pos[j] >= len(calls[j]) for j in range(len(objs))):
                break
    except Exception as e:  # noqa
        o = exc_outcome(e)
        return FAIL('isolation-raises:%s' % o[1], 'objects: %s\ninterleaved run raised %s: %s at %s although every object runs alone' % (
            [(text_of(x), x.get('sem'), x.get('io')) for x in objs], o[1], o[3], o[4]), labels)
    for i, o in enumerate(objs):
        if json.dumps(jsonable(outs[i])) != json.dumps(jsonable(alone[i])):
            return FAIL('isolation-differs:' + o['kind'], 'objects: %s\nobject %d alone:       %r\nobject %d interleaved: %r' % (
                [(text_of(x), x.get('sem'), x.get('io')) for x in objs], i, alone[i], i, outs[i]), labels)
    stateful = sum(1 for o in objs if any(op in F.STATEFUL_ONLINE for op in F.ops(from_json(o['formula']))))
    return PASS(stateful >= 2 and switches >= 2, labels)


# ---- lane hashseed ---------------------------------------------------------

WORKER = r'''
import json, sys, copy
sys.path.insert(0, %(root)r)
from vlib.props import C11
from vlib.runner import jsonable
cases = json.load(open(sys.argv[1]))
out = []
for c in cases:
    try:
        out.append(jsonable(C11.run_alone(c)))
    except Exception as e:
        out.append('exc:' + type(e).__name__)
print(json.dumps(out, sort_keys=True))
'''


def hashseed_lane(tier, seed, shard=0, nshards=1):
    from hypothesis import given, settings, HealthCheck, Phase
    from hypothesis import seed as hseed
    from ..runner import derive_seed
    nb = 150 if tier == 'quick' else 1500
    batch = []

    @hseed(derive_seed(seed, 'C11', 'hashseed'))
    @settings(max_examples=nb, database=None, deadline=None, suppress_health_check=list(HealthCheck), phases=[Phase.generate])
    @given(st.sampled_from(KINDS).flatmap(lambda k: one_object(k)))
    def collect(c):
        batch.append(jsonable(c))
    collect()
    work = os.path.join(ROOT, '.work')
    os.makedirs(work, exist_ok=True)
    path = os.path.join(work, 'c11-hashseed-%d-%d.json' % (seed, os.getpid()))
    with open(path, 'w') as fh:
        json.dump(batch, fh)
    outs = {}
    stats = Stats()
    fails = []
    try:
        for hs in ('0', '1', '2', 'random'):
            env = dict(os.environ)
            env['PYTHONHASHSEED'] = hs
            p = subprocess.run([sys.executable, '-c', WORKER % {'root': ROOT}, path], env=env, capture_output=True, text=True, timeout=600)
            lines = [l for l in p.stdout.splitlines() if l.startswith('[')]
            if p.returncode != 0 or not lines:
                raise RuntimeError('hashseed worker failed: ' + p.stderr[-500:])
            outs[hs] = json.loads(lines[-1])
        ref = outs['0']
        for i, c in enumerate(batch):
            differs = [hs for hs in outs if outs[hs][i] != ref[i]]
            v = PASS(True, ['kind:' + c['kind']])
            if differs:
                v = FAIL('hashseed-dependent:' + c['kind'], 'spec: %s\nPYTHONHASHSEED=0: %r\nPYTHONHASHSEED=%s: %r' % (
                    text_of(c), ref[i], differs[0], outs[differs[0]][i]))
                if not fails:
                    fails.append({'lane': 'hashseed', 'key': v.key, 'detail': v.detail, 'case': c, 'shrink_evals': 0})
            stats.add(c, v, len(stats.samples) < 2)
    finally:
        try:
            os.remove(path)
        except OSError:
            pass
    return stats.export(), fails


def check_hashseed_replay(case):
    """Replay of a hash-seed failure: run the single case under two hash seeds."""
    work = os.path.join(ROOT, '.work')
    os.makedirs(work, exist_ok=True)
    path = os.path.join(work, 'c11-replay-%d.json' % os.getpid())
    with open(path, 'w') as fh:
        json.dump([case], fh)
    try:
        res = []
        for hs in ('0', '1', '2', '3'):
            env = dict(os.environ)
            env['PYTHONHASHSEED'] = hs
            p = subprocess.run([sys.executable, '-c', WORKER % {'root': ROOT}, path], env=env, capture_output=True, text=True, timeout=120)
            res.append([l for l in p.stdout.splitlines() if l.startswith('[')][-1])
        if len(set(res)) > 1:
            return FAIL('hashseed-dependent:' + case['kind'], 'results differ between hash seeds: %s' % res)
        return PASS(True)
    finally:
        os.remove(path)


def cand_obj(case):
    for f2 in formula_candidates(from_json(case['formula'])):
        if f2[0] == 'const' or not F.fvars(f2):
            continue
        c = dict(case)
        c['formula'] = f2
        yield c
    if 'trace' in case:
        n = len(next(iter(case['trace'].values())))
        if n > 1:
            c = dict(case)
            c['trace'] = {v: xs[:-1] for v, xs in case['trace'].items()}
            yield c


def cand_isolation(case):
    objs = case['objects']
    if len(objs) > 2:
        for i in range(len(objs)):
            c = dict(case)
            c['objects'] = objs[:i] + objs[i + 1:]
            c['order'] = [min(x, len(c['objects']) - 1) for x in case['order']]
            yield c
    for i, o in enumerate(objs):
        for o2 in cand_obj(o):
            c = dict(case)
            c['objects'] = objs[:i] + [o2] + objs[i + 1:]
            yield c
    if len(case['order']) > 1:
        c = dict(case)
        c['order'] = case['order'][:len(case['order']) // 2]
        yield c


def cand_repeat(case):
    for key in ('a', 'b'):
        for o2 in cand_obj(case[key]):
            c = dict(case)
            c[key] = o2
            if key == 'a':
                c['b'] = dict(case['b'])
                c['b']['formula'] = o2['formula']
            yield c


@st.composite
def chunked_inputs_cases(draw, tier):
    """Dense online only: several update() calls, half of them with batches that repeat the previous last sample, and a
    bare variable as a direct operand of a binary operator (the operators buffer and trim these lists)."""
    c = draw(one_object('ct_on'))
    vs = c['vars']
    v = ('var', draw(st.sampled_from(vs)))
    op = draw(st.sampled_from(['and', 'or', 'implies', 'implies', 'since', '+', '-', '*', 'iff', 'xor']))
    f = from_json(c['formula'])
    g = f if F.depth(f) <= 3 else ('var', draw(st.sampled_from(vs)))
    kind = 'bin'
    if op in ('iff', 'xor') or op in ('+', '-', '*'):
        g = ('var', draw(st.sampled_from(vs)))        # FIN operands only
    c['formula'] = (kind, op, g, v) if draw(st.booleans()) else (kind, op, v, g)
    c['cuts'] = draw(st.integers(1, 3))
    c['overlap'] = draw(st.booleans())
    return c


@st.composite
def inputs_cases(draw, tier):
    kind = draw(st.sampled_from(KINDS + ('dt_off',)))
    return draw(one_object(kind, bare=True))


# ---- explain() in between ----------------------------------------------------------------------------------------

@st.composite
def explain_between_cases(draw, tier):
    """evaluate(A), explain(), evaluate(A) [, evaluate(B), explain(), evaluate(A)] on one discrete-time offline object, with
    sampling periods and units other than the default ones: explain() is a query and leaves later results alone."""
    from . import C20
    c = draw(C20.cases(tier, False))
    c['timing'] = draw(C20.TIMINGS.filter(lambda t: t is not None)) if draw(st.integers(0, 3)) else None
    n = len(next(iter(c['trace'].values())))
    c['other'] = draw(F.traces(c['vars'], n=n))
    return c


def check_explain_between(case):
    f = from_json(case['formula'])
    vs = [v for v in case['vars'] if v in F.fvars(f)]
    labels = ['lane:explain_between'] + feature_labels(f)
    if not vs:
        return DISCARD('no-variable', labels)
    timing = case.get('timing')
    n = len(case['trace'][vs[0]])
    if timing:
        pms = timing['period_ms']
        text = 'out = ' + show(f, lambda a, b: '[%dms,%dms]' % (a * pms, b * pms))
        pv, pu = (pms, 'ms') if pms % 1000 else (pms // 1000, 's')
        kw = dict(unit=timing['unit'], period=(pv, pu, 0.1))
        tcol = [i * pms / {'s': 1000.0, 'ms': 1.0}[timing['unit']] for i in range(n)]
        labels.append('period:%dms' % pms)
    else:
        text = 'out = ' + show(f)
        kw = {}
        tcol = [float(i) for i in range(n)]

    def data(tr):
        ds = {'time': list(tcol)}
        for v in vs:
            ds[v] = [float(x) for x in tr[v]]
        return ds
    try:
        spec = build('dt_off', text, vs, dedicated=True, **kw)
        r1 = copy.deepcopy(spec.evaluate(data(case['trace'])))
        rb = copy.deepcopy(build('dt_off', text, vs, dedicated=True, **kw).evaluate(data(case['other'])))
    except Exception as e:  # noqa
        return DISCARD('raises(C17):' + type(e).__name__, labels)
    explained = 0
    steps = [('A', case['trace'], r1), ('B', case['other'], rb), ('A', case['trace'], r1)]
    hist = ['evaluate(A)']
    for name, tr, want in steps:
        try:
            spec.explain()
            explained += 1
            hist.append('explain()')
        except Exception as e:  # noqa
            hist.append('explain() raised %s' % type(e).__name__)
        try:
            got = copy.deepcopy(spec.evaluate(data(tr)))
        except Exception as e:  # noqa
            o = exc_outcome(e)
            return FAIL('raises-after-explain', 'spec: %s  %s\nA: %s\nB: %s\nhistory: %s, then evaluate(%s) raised %s: %s at %s' % (
                text, timing, case['trace'], case['other'], hist, name, o[1], o[3], o[4]), labels)
        hist.append('evaluate(%s)' % name)
        if json.dumps(jsonable(got)) != json.dumps(jsonable(want)):
            return FAIL('result-after-explain', 'spec: %s  %s\nA: %s\nB: %s\nhistory: %s\nlast result: %r\nfresh object on the same data: %r' % (
                text, timing, case['trace'], case['other'], hist, got, want), labels)
    bounded = any(s[0] == 'tun' for s in F.subterms(f))
    return PASS(explained >= 1 and bounded, labels)


# ---- a failed evaluation in between -----------------------------------------------------------------------------

FAULT_VAR = 'zz'


@st.composite
def after_failure_cases(draw, tier):
    """An offline specification with sub-specifications / several assertions whose last requirement contains an operation
    that fails on some data (division by a signal that reaches 0, sqrt of a signal that goes negative).  History on one
    object: [evaluate(A)], evaluate(B) - B makes the operation fail after the earlier requirements were evaluated -,
    evaluate(A): the last result must be that of a fresh object (and equal the first)."""
    from ..modular import decomposed
    kind = draw(st.sampled_from(['dt_off', 'ct_off']))
    c = draw(decomposed(kind, tier))
    f = from_json(c['formula'])
    z = ('var', FAULT_VAR)
    fault = draw(st.sampled_from(['div', 'sqrt']))
    term = ('bin', '/', ('const', 2.0), z) if fault == 'div' else ('un', 'sqrt', z)
    guard = ('pred', draw(st.sampled_from(['>=', '<='])), term, ('const', draw(st.sampled_from([0.5, 1.0, 4.0]))))
    join = draw(st.sampled_from(['and', 'or', 'implies']))
    c['formula'] = ('bin', join, f, guard) if draw(st.booleans()) else ('bin', join, guard, f)
    c['vars'] = list(c['vars']) + [FAULT_VAR]
    c['fault'] = fault
    c['first_good'] = draw(st.booleans())
    good = st.sampled_from([0.5, 1.0, 2.0, 4.0])
    bad_value = 0.0 if fault == 'div' else -1.0
    if kind == 'dt_off':
        n = len(next(iter(c['trace'].values())))
        c['trace'][FAULT_VAR] = [draw(good) for _ in range(n)]
        m = draw(F.trace_lengths(10))
        other = draw(F.traces(c['vars'], n=m))
        other[FAULT_VAR] = [draw(good) for _ in range(m)]
        other[FAULT_VAR][draw(st.integers(0, m - 1))] = bad_value
        c['other'] = other
    else:
        c['signals'][FAULT_VAR] = [[k, draw(good)] for k, _ in draw(grid_signal(0, max_samples=5))]
        other = {v: draw(grid_signal(0, max_samples=6)) for v in c['vars']}
        zs = [[k, draw(good)] for k, _ in draw(grid_signal(0, max_samples=5))]
        zs[draw(st.integers(0, len(zs) - 1))][1] = bad_value
        other[FAULT_VAR] = zs
        c['other'] = other
    return c


def check_after_failure(case):
    from ..modular import build_modular, feed, sub_names
    f = from_json(case['formula'])
    kind = case['kind']
    labels = ['lane:after_failure', 'kind:' + kind, 'subs:%d' % len(case['subs']), 'fault:' + case['fault']] + feature_labels(f)
    key = 'trace' if kind == 'dt_off' else 'signals'
    good = case
    bad = dict(case)
    bad[key] = case['other']
    names = sub_names(case) + ['out']

    def run(spec, c):
        vals = {}

        def collect(s, i):
            for nm in names:
                try:
                    vals[nm] = copy.deepcopy(s.get_value(nm))
                except Exception as e:  # noqa
                    vals[nm] = 'raises ' + type(e).__name__
        out = feed(c, spec, collect)
        return copy.deepcopy(out), vals
    try:
        fresh = run(build_modular(case), good)
    except Exception as e:  # noqa
        return DISCARD('good-data-raises(C17):' + type(e).__name__, labels)
    try:
        spec = build_modular(case)
    except Exception as e:  # noqa
        return DISCARD('build-raises', labels)
    desc = 'kind %s, %s\nsub-specifications %s, delivery %s\ndata A: %s\ndata B: %s' % (
        kind, show(f), [show(from_json(s)) for s in case['subs']], case['delivery'], case[key], case['other'])
    first = None
    if case['first_good']:
        try:
            first = run(spec, good)
        except Exception as e:  # noqa
            return DISCARD('good-data-raises(C17)', labels)
    failed = False
    try:
        run(spec, bad)
    except Exception:  # noqa
        failed = True
    try:
        last = run(spec, good)
    except Exception as e:  # noqa
        o = exc_outcome(e)
        if not failed:
            return DISCARD('re-evaluation-raises-without-failure(repeat lane)', labels)
        return FAIL('raises-after-failed-evaluation:' + kind, desc + '\nevaluate(A) after the failed evaluate(B) raised %s: %s at %s; a fresh object returns %r' % (
            o[1], o[3], o[4], fresh[0]), labels)
    if failed:
        labels.append('intervening-failure')
    if last[0] != fresh[0]:
        return FAIL(('result-after-failed-evaluation:' if failed else 'result-after-other-data:') + kind,
                    desc + '\nevaluate(A) after evaluate(B)%s: %r\nfresh object on A: %r' % (' (which raised)' if failed else '', last[0], fresh[0]), labels)
    if last[1] != fresh[1]:
        bad_names = [nm for nm in names if last[1].get(nm) != fresh[1].get(nm)]
        return FAIL(('get_value-after-failed-evaluation:' if failed else 'get_value-after-other-data:') + kind,
                    desc + '\nafter evaluate(B)%s and evaluate(A): get_value differs from a fresh object for %s: %r vs %r' % (
                        ' (which raised)' if failed else '', bad_names, {k: last[1][k] for k in bad_names}, {k: fresh[1][k] for k in bad_names}), labels)
    if first is not None and first[0] != last[0]:
        return FAIL('first-and-third-differ:' + kind, desc + '\nfirst evaluate(A): %r\nthird: %r' % (first[0], last[0]), labels)
    return PASS(failed and len(case['subs']) >= 1, labels)


def cand_after_failure(case):
    from ..modular import mod_candidates
    for c in mod_candidates(case):
        if FAULT_VAR in F.fvars(from_json(c['formula'])):
            c = dict(c)
            if 'trace' in c and len(next(iter(c['trace'].values()))) != len(next(iter(case['trace'].values()))):
                continue
            yield c


@st.composite
def isolation_giant_cases(draw, tier):
    """Two or three discrete-time objects whose bounded operators have windows of 200..700 samples (sizes at which an
    implementation may keep extra state), interleaved."""
    from ..common import giant_cases
    k = draw(st.sampled_from([2, 2, 3]))
    objs = []
    for _ in range(k):
        kind = draw(st.sampled_from(['dt_on', 'dt_on', 'dt_off']))
        c = draw(giant_cases(F.TUN_PAST + (F.TUN_FUT if kind == 'dt_off' else ()), lengths='long', max_width=700))
        c['kind'] = kind
        objs.append(c)
    order = draw(st.lists(st.integers(0, k - 1), min_size=4, max_size=60))
    # after the drawn prefix the objects take turns in blocks of a drawn length
    return {'objects': objs, 'order': order, 'block': draw(st.sampled_from([1, 1, 3, 50]))}


def check_isolation_giant(case):
    case = dict(case)
    k = len(case['objects'])
    n = max(len(o['trace']['x']) for o in case['objects'])
    tail = []
    for r in range(0, n + 1, case['block']):
        for i in range(k):
            tail += [i] * case['block']
    case['order'] = list(case['order']) + tail
    v = check_isolation(case)
    if v.status == 'pass':
        v.nontrivial = True
    return v


LANES = [
    Lane('isolation_giant', isolation_giant_cases, check_isolation_giant, 40, 400, None),
    Lane('explain_between', lambda tier: explain_between_cases(tier), check_explain_between, 1200, 15000, None),
    Lane('after_failure', lambda tier: after_failure_cases(tier), check_after_failure, 1500, 20000, cand_after_failure),
    Lane('inputs_chunked', lambda tier: chunked_inputs_cases(tier), check_inputs, 1500, 20000, cand_obj),
    Lane('inputs', lambda tier: inputs_cases(tier), check_inputs, 4000, 50000, cand_obj),
    Lane('repeat', lambda tier: repeat_cases(tier), check_repeat, 1500, 20000, cand_repeat),
    Lane('isolation', lambda tier: isolation_cases(tier), check_isolation, 1500, 20000, cand_isolation),
    Lane('hashseed', None, check_hashseed_replay, 1, 1, None, custom=hashseed_lane, shards=1),
]
