"""C17 - well-formed use never crashes; unsupported constructs are rejected cleanly."""
from hypothesis import strategies as st

from .. import formula as F
from ..common import formula_candidates, feature_labels
from ..dense import DENSE, DENSE_PAST, grid_signal, to_time, dense_text
from ..formula import Profile, from_json, show
from ..monitors import build, exc_outcome
from ..runner import Lane, PASS, FAIL, DISCARD
from ..refsem import dt, ct_cells, Undefined
from fractions import Fraction

PROPERTY = 'C17'

RULE = ('Lane supported: per monitor kind (dt_off, dt_on, dt_on after pastify, ct_off, ct_on) a formula from that kind\'s supported '
        'fragment with well-formed data in degenerate shapes: one-sample traces, a surplus variable supplied (declared or not), a '
        'declared-but-unused variable, inputs in permuted order; every call must return normally. Lane unsupported: a supported formula '
        'with one unsupported construct inserted at a random position (unbounded and un-pastified bounded future online, with and without '
        'pastify; prev/next/s_prev/s_next/rise/fall in dense time; bounded until in dense-time online, with and without pastify): '
        'parse/pastify/first evaluate/first update must raise RTAMTException; another exception type or a returned value fails, also when the rejected call is repeated on the same object. Lane struct: the same specification over plain variables and over (nested) fields of objects, verdict optionally written into a field of an output object, online monitors optionally with reset() before the first update or between two passes over the input. Lane mixed_use: the combined classes used offline and online on one object, also interleaved (first part online, evaluate() on the whole data, the rest online with variables without further samples left out). Lane reparse_live: text replaced and parsed again on a live online monitor, values equal those of a fresh monitor (discrete and dense time). Lane recover: a bounded-future specification is used without pastify() (rejected), then pastified and used again on the same object: update() must return normally with the values of an object pastified up front. '
        'Lane struct: the same specification over plain float variables and over (nested) fields of variables of a user-defined type '
        '(import_module + declare_var(name, Type), paths value / pos.x / pos.y / aux.x of two objects), all five set-ups: the structured form returns normally and with the same values. '
        'Lane edited: the text of an object is replaced and parsed again (the previous text bound the same names to other formulas and may use other declared variables); the data supply the variables of the new text only: normal return, values of an object that only saw the new text. '
        'Non-trivial = supported: a degenerate shape is present; unsupported: the offending operator is nested below >=1 other operator; '
        'distinct = distinct (formula, data shape, kind) digests.')

ASSUMPTIONS = [
    'math-domain faults (sqrt/ln/log/pow/division) are excluded by construction of the arithmetic and otherwise discarded via the reference',
    's_prev/s_next are counted with prev/next as unsupported in dense time',
    'values are other properties\' business: only normal return vs exception type is judged here',
]

KINDS = ('dt_off', 'dt_on', 'dt_on_past', 'ct_off', 'ct_on')

DT_FULL = Profile(tbin=('since', 'until', 'unless'), max_depth=3)
DT_PAST = Profile(un_temp=F.UN_PAST, bin_temp=F.BIN_PAST, tun=F.TUN_PAST, tbin=F.TBIN_PAST, max_depth=3)
DT_BFUT = Profile(un_temp=F.UN_PAST, bin_temp=F.BIN_PAST, tbin=('since', 'until'), max_depth=3, max_bound=3,
                  un_arith=('abs', 'sqrt', 'exp'), bin_arith=('+', '-', '*', '/', 'pow'))
Q = Fraction(1, 4)


def profile_for(kind):
    return {'dt_off': DT_FULL, 'dt_on': DT_PAST, 'dt_on_past': DT_BFUT, 'ct_off': DENSE, 'ct_on': DENSE_PAST}[kind]


@st.composite
def supported_cases(draw, tier, kind):
    p = profile_for(kind)
    if tier == 'thorough':
        p = p.copy(max_depth=4)
    f, vs = draw(F.formulas(p))
    shape = draw(st.sampled_from(['one-sample', 'surplus-declared', 'surplus-undeclared', 'declared-unused', 'permuted', 'plain', 'one-sample+surplus']))
    c = {'kind': kind, 'formula': f, 'vars': vs, 'shape': shape, 'perm': draw(st.integers(0, 5))}
    if kind.startswith('dt'):
        n = 1 if shape.startswith('one-sample') else draw(F.trace_lengths(8))
        c['trace'] = draw(F.traces(vs + ['extra_v'], n=n))
    else:
        ms = 1 if shape.startswith('one-sample') else 6
        c['signals'] = {v: draw(grid_signal(0, max_samples=ms)) for v in vs + ['extra_v']}
    return c


def permute(xs, k):
    xs = list(xs)
    if len(xs) < 2:
        return xs
    k = k % len(xs)
    xs = xs[k:] + xs[:k]
    if k % 2:
        xs.reverse()
    return xs


def run_case(kind, f, vs, data, declare_extra, supply_extra, perm):
    """Runs parse [pastify] and the first evaluation; returns ('ok',) or an exception outcome plus the stage."""
    stage = 'parse'
    try:
        dense = kind.startswith('ct')
        text = dense_text(f, Q) if dense else 'out = ' + show(f)
        declared = list(vs) + (['extra_v'] if declare_extra else [])
        spec = build({'dt_off': 'dt_off', 'dt_on': 'dt_on', 'dt_on_past': 'dt_on', 'ct_off': 'ct_off', 'ct_on': 'ct_on',
                      'ct_on_past': 'ct_on'}[kind], text, declared, parse=False)
        spec.parse()
        if kind.endswith('_past'):
            stage = 'pastify'
            spec.pastify()
        stage = 'evaluate'
        supplied = permute(list(vs) + (['extra_v'] if supply_extra else []), perm)
        if kind == 'dt_off':
            n = len(data[vs[0]])
            ds = {}
            keys = permute(['time'] + supplied, perm)
            for k in keys:
                ds[k] = [float(i) for i in range(n)] if k == 'time' else list(data[k])
                if k == 'extra_v' and not declare_extra:
                    # an entry of the log that is not a signal of the specification at all: a column recorded at another rate,
                    # a label, a scalar
                    col = ds[k]
                    ds[k] = [col, col[:max(0, n - 1)], col + col[:1], 'run 7', 0.1][perm % 5]
            out = spec.evaluate(ds)
        elif kind in ('dt_on', 'dt_on_past'):
            n = len(data[vs[0]])
            out = None
            for i in range(n):
                # the list of inputs may change from one update to the next: order, and whether the surplus variable is listed
                step = permute(supplied, perm + i) if perm else list(supplied)
                if supply_extra and perm and i % 2 == 1:
                    step = [v for v in step if v != 'extra_v']
                out = spec.update(i, [(v, data[v][i]) for v in step])
        elif kind == 'ct_off':
            sig = to_time({v: data[v] for v in supplied}, Q)
            out = spec.evaluate(*[[v, sig[v]] for v in supplied])
        else:
            sig = to_time({v: data[v] for v in supplied}, Q)
            out = spec.update(*[[v, sig[v]] for v in supplied])
        return ('ok', out, stage)
    except RecursionError:
        raise
    except Exception as e:  # noqa
        return exc_outcome(e) + (stage,)


def data_of(case):
    if 'trace' in case:
        return {v: [float(x) for x in xs] for v, xs in case['trace'].items()}
    return {v: [(int(k), float(x)) for k, x in s] for v, s in case['signals'].items()}


def reference_defined(kind, f, vs, data):
    try:
        if kind.startswith('dt'):
            n = len(data[vs[0]])
            dt(f, {v: data[v] for v in vs}, n)
        else:
            ct_cells(f, {v: data[v] for v in vs})
        return True
    except Undefined:
        return False


def check_supported(case):
    kind = case['kind']
    f = from_json(case['formula'])
    vs = list(case['vars'])
    data = data_of(case)
    shape = case['shape']
    labels = ['kind:' + kind, 'shape:' + shape] + feature_labels(f)
    used = F.fvars(f)
    vs = [v for v in vs if v in used] if shape != 'declared-unused' else vs
    if not used:
        return DISCARD('no-variable', labels)
    if kind == 'dt_on_past' and F.horizon(f) is None:
        return DISCARD('unbounded', labels)
    if not reference_defined(kind, f, [v for v in vs if v in used], data):
        return DISCARD('undefined', labels)
    declare_extra = shape in ('surplus-declared', 'declared-unused', 'one-sample+surplus')
    supply_extra = shape in ('surplus-declared', 'surplus-undeclared', 'one-sample+surplus')
    if shape == 'declared-unused':
        # variables of the case that the formula does not use stay declared (and are supplied, except extra_v)
        pass
    o = run_case(kind, f, vs, data, declare_extra, supply_extra, case['perm'] if shape != 'plain' else 0)
    if o[0] != 'ok':
        return FAIL('crash:%s:%s@%s' % (kind, o[1], o[4]),
                    'kind %s, shape %s\nspec: out = %s\ndeclared: %s extra declared=%s supplied=%s\ndata: %s\n%s raised %s: %s at %s' % (
                        kind, shape, show(f), vs, declare_extra, supply_extra, {v: data[v] for v in vs}, o[5], o[1], o[3], o[4]), labels)
    return PASS(shape != 'plain', labels)


# ---- unsupported constructs ------------------------------------------------

UNSUP = {
    'dt_on': [('un', 'eventually'), ('un', 'always'), ('bin', 'until'), ('un', 'next'), ('un', 's_next'),
              ('tun', 'eventually'), ('tun', 'always'), ('tbin', 'until')],
    'dt_on_past': [('un', 'eventually'), ('un', 'always'), ('bin', 'until')],
    'ct_off': [('un', 'prev'), ('un', 'next'), ('un', 's_prev'), ('un', 's_next'), ('un', 'rise'), ('un', 'fall')],
    'ct_on': [('un', 'prev'), ('un', 'next'), ('un', 's_prev'), ('un', 's_next'), ('un', 'rise'), ('un', 'fall'),
              ('un', 'eventually'), ('un', 'always'), ('bin', 'until'), ('tbin', 'until'), ('tun', 'eventually'), ('tun', 'always')],
    'ct_on_past': [('un', 'prev'), ('un', 's_prev'), ('un', 'rise'), ('un', 'fall'), ('un', 'next'), ('un', 's_next'),
                   ('un', 'eventually'), ('un', 'always'), ('bin', 'until'), ('tbin', 'until')],
}
UKINDS = tuple(UNSUP)


def insert_at(f, path, make):
    if not path:
        return make(f)
    kids = list(F.children(f))
    i = path[0] % len(kids) if kids else None
    if i is None:
        return make(f)
    kids[i] = insert_at(kids[i], path[1:], make)
    return F.rebuild(f, kids)


@st.composite
def unsupported_cases(draw, tier, kind):
    base = {'dt_on': DT_PAST, 'dt_on_past': DT_BFUT, 'ct_off': DENSE, 'ct_on': DENSE_PAST, 'ct_on_past': DENSE_PAST}[kind]
    if tier == 'thorough':
        base = base.copy(max_depth=4)
    f, vs = draw(F.formulas(base))
    what = draw(st.sampled_from(UNSUP[kind]))
    path = draw(st.lists(st.integers(0, 1), min_size=0, max_size=3))
    other, _ = draw(F.formulas(base.copy(max_depth=2), variables=vs))
    b = draw(st.integers(0, 3))
    a = draw(st.integers(0, b))
    c = {'kind': kind, 'formula': f, 'vars': vs, 'what': list(what), 'path': path, 'other': other, 'a': a, 'b': b}
    if kind.startswith('dt'):
        c['trace'] = draw(F.traces(vs, n=draw(st.integers(1, 5))))
    else:
        c['signals'] = {v: draw(grid_signal(0, max_samples=4)) for v in vs}
    return c


def offending(case):
    what = tuple(case['what'])
    other = from_json(case['other'])
    a, b = case['a'], case['b']

    def make(sub):
        if what[0] == 'un':
            return ('un', what[1], sub)
        if what[0] == 'bin':
            return ('bin', what[1], sub, other)
        if what[0] == 'tun':
            return ('tun', what[1], a, b, sub)
        return ('tbin', what[1], a, b, sub, other)
    return insert_at(from_json(case['formula']), list(case['path']), make)


def run_twice_unsupported(kind, f, vs, data):
    """The rejected call is repeated on the same object: it must be rejected the same way (RTAMTException) again."""
    from ..monitors import build
    dense = kind.startswith('ct')
    text = dense_text(f, Q) if dense else 'out = ' + show(f)
    outcomes = []
    try:
        spec = build({'dt_on': 'dt_on', 'dt_on_past': 'dt_on', 'ct_off': 'ct_off', 'ct_on': 'ct_on', 'ct_on_past': 'ct_on'}[kind],
                     text, list(vs), parse=False)
        spec.parse()
        if kind.endswith('_past'):
            spec.pastify()
    except Exception as e:  # noqa
        return [exc_outcome(e)]
    for _ in range(2):
        try:
            if kind in ('dt_on', 'dt_on_past'):
                out = spec.update(0, [(v, data[v][0]) for v in vs])
            elif kind == 'ct_off':
                sig = to_time({v: data[v] for v in vs}, Q)
                out = spec.evaluate(*[[v, sig[v]] for v in vs])
            else:
                sig = to_time({v: data[v] for v in vs}, Q)
                out = spec.update(*[[v, sig[v]] for v in vs])
            outcomes.append(('ok', out))
        except RecursionError:
            raise
        except Exception as e:  # noqa
            outcomes.append(exc_outcome(e))
    return outcomes


def check_unsupported(case):
    kind = case['kind']
    g = offending(case)
    vs = list(case['vars'])
    data = data_of(case)
    what = '%s%s' % (case['what'][1], '[]' if case['what'][0] in ('tun', 'tbin') else '')
    labels = ['kind:' + kind, 'construct:' + what, 'depth-of-construct:%d' % min(len(case['path']), 3)]
    used = F.fvars(g)
    vs = [v for v in vs if v in used]
    if not vs:
        return DISCARD('no-variable', labels)
    o = run_case(kind, g, vs, data, False, False, 0)
    desc = 'kind %s: unsupported construct %s\nspec: out = %s\ndata: %s' % (kind, what, show(g), {v: data[v] for v in vs})
    nested = g[0] != case['what'][0] or F.op_of(g) != what
    if o[0] == 'ok':
        return FAIL('accepted:%s:%s' % (kind, what), desc + '\nno exception; first evaluation returned %r' % (o[1],), labels)
    if not o[2]:
        return FAIL('wrong-exception:%s:%s:%s@%s' % (kind, what, o[1], o[4]), desc + '\n%s raised %s (not RTAMTException): %s at %s' % (o[5], o[1], o[3], o[4]), labels)
    if o[5] == 'evaluate':
        for i, o2 in enumerate(run_twice_unsupported(kind, g, vs, data)):
            if o2[0] == 'ok':
                return FAIL('accepted-on-retry:%s:%s' % (kind, what), desc + '\nattempt %d of the same call on the same object returned %r' % (i + 1, o2[1]), labels)
            if not o2[2]:
                return FAIL('wrong-exception-on-retry:%s:%s' % (kind, o2[1]), desc + '\nattempt %d of the same call raised %s (not RTAMTException): %s at %s' % (
                    i + 1, o2[1], o2[3], o2[4]), labels)
    return PASS(nested, labels + ['rejected-at:' + o[5]])


def cand_supported(case):
    f = from_json(case['formula'])
    for f2 in formula_candidates(f):
        if f2[0] == 'const' or not F.fvars(f2):
            continue
        c = dict(case)
        c['formula'] = f2
        yield c


def cand_unsupported(case):
    if case['path']:
        c = dict(case)
        c['path'] = case['path'][:-1]
        yield c
    for key in ('formula', 'other'):
        f = from_json(case[key])
        for f2 in formula_candidates(f):
            if f2[0] == 'const' or not F.fvars(f2):
                continue
            c = dict(case)
            c[key] = f2
            yield c


@st.composite
def recover_cases(draw, tier):
    f, vs = draw(F.formulas(DT_BFUT))
    b = draw(st.integers(0, 3))
    g = ('tun', draw(st.sampled_from(['eventually', 'always'])), draw(st.integers(0, b)), b, f)
    n = (F.horizon(g) or 0) + draw(st.integers(1, 4))
    # the call that is rejected first: update(), or reset() before any update
    return {'formula': g, 'vars': vs, 'trace': draw(F.traces(vs, n=n)), 'first_call': draw(st.sampled_from(['update', 'update', 'reset', 'reset+update']))}


def check_recover(case):
    """A bounded-future specification is first used without pastify() (rejected with RTAMTException), then pastified
    and used again on the same object: from then on it is a supported specification and update() must return normally,
    with the same values as an object that was pastified up front."""
    from ..monitors import build
    f = from_json(case['formula'])
    vs = [v for v in case['vars'] if v in F.fvars(f)]
    labels = ['kind:recover'] + feature_labels(f)
    if not vs or F.horizon(f) is None:
        return DISCARD('no-variable-or-unbounded', labels)
    tr = {v: [float(x) for x in case['trace'][v]] for v in vs}
    n = len(tr[vs[0]])
    text = 'out = ' + show(f)
    desc = 'spec: %s\ntrace: %s' % (text, tr)
    try:
        ref_spec = build('dt_on', text, vs, pastify=True)
        ref = [ref_spec.update(i, [(v, tr[v][i]) for v in vs]) for i in range(n)]
    except Exception as e:  # noqa
        return DISCARD('pastified-raises(C03/C17):' + type(e).__name__, labels)
    spec = build('dt_on', text, vs)
    first = case.get('first_call', 'update')
    labels.append('first-call:' + first)
    desc += '\nfirst (rejected) call: ' + first
    for call in first.split('+'):
        try:
            if call == 'reset':
                spec.reset()
            else:
                spec.update(0, [(v, tr[v][0]) for v in vs])
            return FAIL('accepted:dt_on:future-without-pastify', desc + '\n%s() without pastify() returned normally' % call, labels)
        except Exception as e:  # noqa
            o = exc_outcome(e)
            if not o[2]:
                return FAIL('wrong-exception:recover:%s' % o[1], desc + '\n%s() without pastify() raised %s: %s' % (call, o[1], o[3]), labels)
    try:
        spec.pastify()
        got = [spec.update(i, [(v, tr[v][i]) for v in vs]) for i in range(n)]
    except Exception as e:  # noqa
        o = exc_outcome(e)
        return FAIL('crash:recover:%s@%s' % (o[1], o[4].split(':')[-1]), desc + '\nafter the rejected update(), pastify() + update() raised %s: %s at %s' % (
            o[1], o[3], o[4]), labels)
    h = F.horizon(f)
    if got[h:] != ref[h:]:
        return FAIL('recover-differs', desc + '\nafter rejected update + pastify: %r\npastified up front: %r' % (got, ref), labels)
    return PASS(True, labels)


# ---- variables of a user-defined type (import_module / declare_var(name, Type)), numbers in (nested) fields ----------

@st.composite
def struct_cases(draw, tier):
    kind = draw(st.sampled_from(['dt_off', 'dt_on', 'dt_on_past', 'ct_off', 'ct_on']))
    c = draw(supported_cases(tier, kind))
    c['shape'] = 'plain'
    from ..structs import PATHS
    objs = ['m', 'n']
    # every variable of the formula becomes a field path of one of two objects
    slots = [(o, p) for o in objs for p in PATHS]
    picks = draw(st.permutations(slots))
    c['paths'] = {v: list(picks[i]) for i, v in enumerate(c['vars'])}
    if 'signals' in c:
        # the fields of one object share its time axis
        ks = [k for k, _ in draw(grid_signal(0, max_samples=6))]
        c['signals'] = {v: [[k, draw(F.values())] for k in ks] for v in c['vars']}
    else:
        c['trace'] = {v: c['trace'][v] for v in c['vars']}
    c['outfield'] = draw(st.sampled_from([None, None, 'value', 'value']))
    # online monitors: reset() before the first update, or the whole input once, reset(), and the whole input again
    c['reset'] = draw(st.sampled_from([None, None, 'first', 'again']))
    # the caller replays a full logged row: the update also lists an entry under the name of the output object
    c['echo_output'] = draw(st.integers(0, 3)) == 0
    # online kinds: the combined class of the README, with an evaluate() on the whole data between two updates
    c['interleave_evaluate'] = draw(st.integers(0, 3)) == 0
    return c


def run_struct(kind, f, vs, data, paths, structured, sem=None, objio=None, outfield=None, reset=None, echo=False, inter=False):
    from ..structs import Msg, PATHS
    dense = kind.startswith('ct')
    base = {'dt_off': 'dt_off', 'dt_on': 'dt_on', 'dt_on_past': 'dt_on', 'ct_off': 'ct_off', 'ct_on': 'ct_on'}[kind]
    ren = {v: ('%s.%s' % tuple(paths[v]) if structured else v) for v in vs}

    def rn(g):
        if g[0] == 'var':
            return ('var', ren[g[1]])
        return tuple(rn(x) if isinstance(x, tuple) else x for x in g)
    g = rn(f)
    text = dense_text(g, Q) if dense else 'out = ' + show(g)
    if structured and outfield:
        # the requirement writes its verdict into a field of an object-valued output variable: res.value = ...
        text = 'res.%s = %s' % (outfield, text.split('=', 1)[1].strip())
    objs = sorted(set(paths[v][0] for v in vs))
    if sem or inter:
        base = base[:2]           # interface-aware semantics / offline and online use of one object: the combined classes
    try:
        if structured:
            spec = build(base, text, [], parse=False, semantics=sem)
            spec.import_module('vlib.structs', 'Msg')
            if outfield:
                spec.declare_var('res', 'Msg')
            for o in objs:
                spec.declare_var(o, 'Msg')
                if objio and objio.get(o):
                    spec.set_var_io_type(o, objio[o])
        else:
            spec = build(base, text, list(vs), parse=False, semantics=sem,
                         io_types={v: objio[paths[v][0]] for v in vs if objio and objio.get(paths[v][0])})
        spec.parse()
        if kind == 'dt_on_past':
            spec.pastify()

        def obj_at(o, get):
            args = [0.0] * len(PATHS)
            for v in vs:
                if paths[v][0] == o:
                    args[PATHS.index(paths[v][1])] = get(v)
            return Msg(*args)
        if kind.startswith('dt'):
            n = len(data[vs[0]])
            if structured:
                cols = {o: [obj_at(o, lambda v: data[v][i]) for i in range(n)] for o in objs}
            else:
                cols = {v: list(data[v]) for v in vs}
            if kind == 'dt_off':
                ds = {'time': [float(i) for i in range(n)]}
                ds.update(cols)
                return ('ok', spec.evaluate(ds))
            extra = [('res', 0.0)] if (echo and structured and outfield) else []
            if reset == 'first':
                spec.reset()
            elif reset == 'again':
                [spec.update(i, [(k, col[i]) for k, col in cols.items()] + extra) for i in range(n)]
                spec.reset()
            outs = []
            for i in range(n):
                if inter and i == n // 2:
                    ds = {'time': [float(j) for j in range(n)]}
                    ds.update({k: list(col) for k, col in cols.items()})
                    spec.evaluate(ds)
                outs.append(spec.update(i, [(k, col[i]) for k, col in cols.items()] + extra))
            return ('ok', outs)
        sig = to_time({v: data[v] for v in vs}, Q)
        if structured:
            stamps = [t for t, _ in sig[vs[0]]]
            args = [[o, [[t, obj_at(o, lambda v: sig[v][j][1])] for j, t in enumerate(stamps)]] for o in objs]
        else:
            args = [[v, sig[v]] for v in vs]
        if kind == 'ct_off':
            return ('ok', spec.evaluate(*args))
        # online: two update() calls (the samples up to the middle stamp, then the rest)
        stamps_all = sorted(set(t for _n, s in args for t, _x in s))
        mid = stamps_all[len(stamps_all) // 2]
        first = [[n_, [p for p in s if p[0] <= mid]] for n_, s in args]
        rest = [[n_, [p for p in s if p[0] > mid]] for n_, s in args]
        def copy(a):
            return [[n_, [list(p) for p in s]] for n_, s in a] + ([['res', [[s[0][0], 0.0] for _n, s in a[:1] if s]]] if (echo and structured and outfield) else [])
        if reset == 'first':
            spec.reset()
        elif reset == 'again':
            spec.update(*copy(first))
            if any(s for _n, s in rest):
                spec.update(*copy(rest))
            spec.reset()
        out = list(spec.update(*copy(first)))
        if inter:
            spec.evaluate(*[[n_, [list(p) for p in s]] for n_, s in args])
        if any(s for _n, s in rest):
            out += list(spec.update(*copy(rest)))
        return ('ok', out)
    except RecursionError:
        raise
    except Exception as e:  # noqa
        return exc_outcome(e)


def check_struct(case):
    """The same specification written over plain float variables and over (nested) fields of variables of a user-defined
    type gives the same results; the structured form returns normally whenever the plain one does."""
    kind = case['kind']
    f = from_json(case['formula'])
    vs = [v for v in case['vars'] if v in F.fvars(f)]
    labels = ['kind:struct', 'monitor:' + kind] + feature_labels(f)
    if not vs:
        return DISCARD('no-variable', labels)
    if kind == 'dt_on_past' and F.horizon(f) is None:
        return DISCARD('unbounded', labels)
    data = data_of(case)
    rs = case.get('reset') if kind in ('dt_on', 'dt_on_past', 'ct_on') else None
    if rs:
        labels.append('reset:' + rs)
    inter = bool(case.get('interleave_evaluate')) and kind in ('dt_on', 'ct_on')
    if inter:
        labels.append('evaluate-between-updates')
    plain = run_struct(kind, f, vs, data, case['paths'], False, reset=rs, inter=inter)
    if plain[0] != 'ok':
        return DISCARD('plain-raises(other lanes):' + plain[1], labels)
    echo = bool(case.get('echo_output')) and kind in ('dt_on', 'dt_on_past', 'ct_on') and bool(case.get('outfield'))
    if echo:
        labels.append('update-lists-the-output-object')
    st_ = run_struct(kind, f, vs, data, case['paths'], True, outfield=case.get('outfield'), reset=rs, echo=echo, inter=inter)
    desc = 'monitor %s\nspec over plain variables: %s\nfield paths: %s%s\ndata: %s' % (kind, show(f), {v: '.'.join(case['paths'][v]) for v in vs},
                                                                                       ('; the verdict is written to res.%s' % case['outfield'] if case.get('outfield') else '') + ('; reset() before the first update' if rs == 'first' else '; the input once, reset(), the input again' if rs == 'again' else ''), {v: data[v] for v in vs})
    if st_[0] != 'ok':
        return FAIL('crash:struct:%s:%s@%s' % (kind, st_[1], st_[4].split(':')[-1]), desc + '\nwith the variables as fields of Msg objects: raised %s: %s at %s\nplain variables: %r' % (
            st_[1], st_[3], st_[4], plain[1]), labels)
    if st_[1] != plain[1]:
        return FAIL('struct-differs:' + kind, desc + '\nfields of objects: %r\nplain variables:   %r' % (st_[1], plain[1]), labels)
    nested = any('.' in case['paths'][v][1] for v in vs)
    return PASS(nested, labels + (['nested-field'] if nested else []))


def cand_struct(case):
    for c in cand_supported(case):
        c = dict(c)
        if 'signals' in c:
            n = min(len(s) for s in c['signals'].values())
            ks = [k for k, _ in next(iter(case['signals'].values()))][:n]
            if any([k for k, _ in s] != ks for s in c['signals'].values()):
                continue
        yield c


def edited_cases(tier):
    from .C12 import edited_hosts
    return edited_hosts(tier)


def check_edited(case):
    """The text of a specification object is replaced and parsed again (the previous text used other variables and bound
    the same names to other formulas); the data supply exactly the variables of the new text: evaluation returns
    normally, with the values of an object that only ever saw the new text."""
    from ..modular import build_modular, feed
    from .C09 import describe
    f = from_json(case['formula'])
    kind = case['kind']
    labels = ['kind:edited', 'monitor:' + kind] + feature_labels(f)
    if not F.fvars(f):
        return DISCARD('no-variable', labels)
    if kind == 'dt_on_past' and F.horizon(f) is None:
        return DISCARD('unbounded', labels)
    plain = dict(case)
    plain.pop('previous')
    try:
        want = feed(plain, build_modular(plain))
    except Exception as e:  # noqa
        return DISCARD('plain-object-raises:' + type(e).__name__, labels)
    desc = describe(plain) + '\nprevious text of the object: main %s, sub-specifications %s' % (
        show(from_json(case['previous']['formula'])), [show(from_json(s)) for s in case['previous']['subs']])
    try:
        got = feed(case, build_modular(case))
    except Exception as e:  # noqa
        o = exc_outcome(e)
        return FAIL('crash:edited:%s:%s@%s' % (kind, o[1], o[4].split(':')[-1]), desc + '\nafter replacing the text and parsing again, evaluation raised %s: %s at %s\nan object that only saw the new text returns %r' % (
            o[1], o[3], o[4], want), labels)
    if got != want:
        return FAIL('edited-differs:' + kind, desc + '\nafter replacing the text and parsing again: %r\nobject that only saw the new text: %r' % (got, want), labels)
    pv = set(F.fvars(from_json(case['previous']['formula']))) - set(F.fvars(f))
    return PASS(bool(pv), labels + (['previous-text-has-other-variables'] if pv else []))


def cand_edited(case):
    from .C12 import cand_edited as ce
    return ce(case)


@st.composite
def reparse_live_cases(draw, tier):
    """An online monitor that has already been updated gets another text (spec.spec = ...; parse(); pastify() if the new text
    needs it) and is updated further: it behaves like a fresh monitor of the new text."""
    dense = draw(st.booleans())
    base = DENSE_PAST if dense else draw(st.sampled_from([DT_PAST, DT_BFUT]))
    f1, vs = draw(F.formulas(base))
    f2, _ = draw(F.formulas(base, variables=vs))
    c = {'kind': 'ct_on' if dense else 'dt_on', 'formula': f2, 'first': f1, 'vars': vs}
    if dense:
        c['signals'] = {v: draw(grid_signal(0, max_samples=4)) for v in vs}
    else:
        c['trace'] = draw(F.traces(vs, n=(F.horizon(f2) or 0) + draw(st.integers(1, 5))))
    return c


def check_reparse_live(case):
    f1, f2 = from_json(case['first']), from_json(case['formula'])
    vs = list(case['vars'])
    dense = case['kind'] == 'ct_on'
    labels = ['kind:' + case['kind'] + ':reparse-live'] + feature_labels(f2)
    if not F.fvars(f1) or not F.fvars(f2) or F.horizon(f1) is None or F.horizon(f2) is None:
        return DISCARD('no-variable-or-unbounded', labels)
    data = data_of(case)
    pr = (lambda g: dense_text(g, Q)) if dense else (lambda g: 'out = ' + show(g))

    def feed(spec):
        if dense:
            sig = to_time({v: data[v] for v in vs}, Q)
            return [spec.update(*[[v, sig[v]] for v in vs])]
        return [spec.update(i, [(v, data[v][i]) for v in vs]) for i in range(len(data[vs[0]]))]
    try:
        fresh = build(case['kind'], pr(f2), vs, pastify=F.has_future(f2))
        want = feed(fresh)
        spec = build(case['kind'], pr(f1), vs, pastify=F.has_future(f1))
        feed(spec)
    except Exception as e:  # noqa
        return DISCARD('single-text-raises(other lanes):' + type(e).__name__, labels)
    desc = 'first text: %s\nsecond text: %s\ndata: %s' % (pr(f1), pr(f2), {v: data[v] for v in vs})
    try:
        spec.spec = pr(f2)
        spec.parse()
        if F.has_future(f2):
            spec.pastify()
        spec.reset() if case.get('reset_after_parse') else None
        got = feed(spec)
    except Exception as e:  # noqa
        o = exc_outcome(e)
        return FAIL('crash:reparse-live:%s:%s' % (case['kind'], o[1]), desc + '\nafter the text was replaced and parsed again: raised %s: %s at %s' % (o[1], o[3], o[4]), labels)
    if got != want:
        return FAIL('reparse-live-differs:' + case['kind'], desc + '\nre-parsed live monitor: %r\nfresh monitor:          %r' % (got, want), labels)
    return PASS(F.n_temporal(f2) >= 1, labels)


@st.composite
def mixed_use_cases(draw, tier):
    """The combined classes of the README (offline and online monitor in one object) used both ways on one object:
    evaluate() then update()s, or update()s then evaluate()."""
    dense = draw(st.booleans())
    base = DENSE_PAST if dense else DT_PAST
    f, vs = draw(F.formulas(base))
    # interleaved: the first part of the input online, then evaluate() on the whole data, then the rest online (dense time: a
    # variable without further samples is left out of the second update)
    c = {'kind': 'ct' if dense else 'dt', 'formula': f, 'vars': vs, 'first': draw(st.sampled_from(['evaluate', 'update', 'interleaved', 'interleaved'])),
         'cut': draw(st.sampled_from([0, 1, 2, 3, 5, 8]))}
    if dense:
        c['signals'] = {v: draw(grid_signal(0, max_samples=4)) for v in vs}
    else:
        c['trace'] = draw(F.traces(vs, n=draw(st.integers(1, 5))))
    return c


def check_mixed_use(case):
    f = from_json(case['formula'])
    vs = [v for v in case['vars'] if v in F.fvars(f)]
    dense = case['kind'] == 'ct'
    labels = ['kind:' + case['kind'] + '-combined', 'first:' + case['first']] + feature_labels(f)
    if not vs:
        return DISCARD('no-variable', labels)
    data = data_of(case)
    if not reference_defined('ct_off' if dense else 'dt_off', f, vs, data):
        return DISCARD('undefined', labels)
    text = dense_text(f, Q) if dense else 'out = ' + show(f)

    def offline(spec):
        if dense:
            sig = to_time({v: data[v] for v in vs}, Q)
            return spec.evaluate(*[[v, sig[v]] for v in vs])
        n = len(data[vs[0]])
        return spec.evaluate(dict([('time', [float(i) for i in range(n)])] + [(v, list(data[v])) for v in vs]))

    inter = case['first'] == 'interleaved'
    cut = case.get('cut', 1)

    def online(spec, between=None):
        if dense:
            sig = to_time({v: data[v] for v in vs}, Q)
            if not inter:
                return [spec.update(*[[v, sig[v]] for v in vs])]
            tc = float(cut * Q)
            outs = [spec.update(*[[v, [list(p) for p in sig[v] if p[0] <= tc]] for v in vs])]
            if between:
                between()
            rest = [[v, [list(p) for p in sig[v] if p[0] > tc]] for v in vs]
            if any(b for _v, b in rest):
                outs.append(spec.update(*[[v, b] for v, b in rest if b]))
            return outs
        n = len(data[vs[0]])
        outs = []
        for i in range(n):
            if inter and between and i == min(cut, n - 1):
                between()
            outs.append(spec.update(i, [(v, data[v][i]) for v in vs]))
        return outs
    try:
        want_off = offline(build('ct' if dense else 'dt', text, vs))
        want_on = online(build('ct' if dense else 'dt', text, vs))
    except Exception as e:  # noqa
        return DISCARD('single-use-raises(other lanes):' + type(e).__name__, labels)
    desc = 'combined class, %s first\nspec: %s\ndata: %s' % (case['first'], text, {v: data[v] for v in vs})
    try:
        spec = build('ct' if dense else 'dt', text, vs)
        if inter:
            box = []
            got_on = online(spec, lambda: box.append(offline(spec)))
            got_off = box[0] if box else want_off
        elif case['first'] == 'evaluate':
            got_off, got_on = offline(spec), online(spec)
        else:
            got_on, got_off = online(spec), offline(spec)
    except Exception as e:  # noqa
        o = exc_outcome(e)
        return FAIL('crash:mixed-use:%s:%s' % (case['kind'], o[1]), desc + '\nraised %s: %s at %s' % (o[1], o[3], o[4]), labels)
    if got_off != want_off or got_on != want_on:
        return FAIL('mixed-use-differs:' + case['kind'], desc + '\noffline %r (an object used for this only: %r)\nonline %r (an object used for this only: %r)' % (
            got_off, want_off, got_on, want_on), labels)
    return PASS(F.n_temporal(f) >= 1, labels)


@st.composite
def giant_supported_cases(draw, tier):
    """Bounded operators with windows of 200..1100 samples on traces from one sample up to twice the bound (offline: all four
    unary operators and since/until; online: the past ones)."""
    from ..common import giant_cases
    kind = draw(st.sampled_from(['dt_off', 'dt_off', 'dt_on']))
    c = draw(giant_cases(F.TUN_PAST + (F.TUN_FUT if kind == 'dt_off' else ()), ('since', 'until') if kind == 'dt_off' else ('since',)))
    c.update({'kind': kind, 'shape': 'giant-window', 'perm': 0})
    return c


LANES = [Lane('reparse_live', reparse_live_cases, check_reparse_live, 1000, 10000, None), Lane('mixed_use', mixed_use_cases, check_mixed_use, 1000, 10000, None), Lane('sup_giant', giant_supported_cases, check_supported, 80, 800, None), Lane('struct', struct_cases, check_struct, 1200, 15000, cand_struct), Lane('edited', edited_cases, check_edited, 1200, 15000, cand_edited), Lane('recover', lambda tier: recover_cases(tier), check_recover, 800, 8000, cand_supported)]
for _k in KINDS:
    LANES.append(Lane('sup_' + _k, (lambda k: lambda tier: supported_cases(tier, k))(_k), check_supported, 1500, 20000, cand_supported))
for _k in UKINDS:
    LANES.append(Lane('unsup_' + _k, (lambda k: lambda tier: unsupported_cases(tier, k))(_k), check_unsupported, 800, 10000, cand_unsupported))
