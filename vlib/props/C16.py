"""C16 - settled offline results are stable under trace extension."""
from hypothesis import strategies as st

from .. import formula as F
from ..common import dt_cases, std_candidates, feature_labels, fmt_vals
from ..formula import Profile, from_json, show
from ..monitors import run_dt_off
from ..refsem import needs_tolerance, same
from ..runner import Lane, PASS, FAIL, DISCARD

PROPERTY = 'C16'

RULE = ('Formula without unbounded future operators (bounded future, next, all past operators, Boolean, arithmetic) x trace w2 x cut '
        'point m; w1 = w2[0..m). Oracle (metamorphic): offline evaluate(w1)[t] == evaluate(w2)[t] for all t with t + h < |w1|, h = '
        'horizon computed by the harness (next counts 1). Dense-time lane: w1 = w2 restricted to [t0,T], compared at all cell starts and '
        'midpoints t with t + h < T. Lane giant: windows of 200..1100 samples (around 256, 512, 1024) on mostly flat traces with isolated extreme samples. Lane verylong: windows of 33..129 samples, few distinct values (ties), prefix ending shortly after the first windows are complete. Non-trivial = h >= 1, a settled t exists and some unsettled t differs between the runs (padding '
        'happened), or a pure-past formula with m < |w2|; distinct = distinct (formula, w2, m) digests.')

ASSUMPTIONS = [
    'horizon: sum of upper bounds along nested future operators, next/s_next count 1',
    'both runs use fresh specification objects',
]

NOUNB = Profile(un_temp=F.UN_PAST + ('next', 's_next'), bin_temp=F.BIN_PAST,
                tbin=('since', 'until', 'unless'), max_bound=4)


@st.composite
def cases(draw, tier):
    p = NOUNB.copy(max_depth=5, max_bound=6) if tier == 'thorough' else NOUNB
    c = draw(dt_cases(p, max_n=14 if tier == 'quick' else 24, min_n=2))
    n = len(next(iter(c['trace'].values())))
    c['cut'] = draw(st.integers(1, n - 1))
    return c


@st.composite
def verylong_cases(draw, tier):
    """Windows of 33..129 samples over traces drawn from very few distinct values (ties between the sample that leaves the
    window and its extremum); the prefix ends shortly after the window of the first samples is complete."""
    p = NOUNB.copy(max_depth=2, nvars=2)
    g, vs = draw(F.formulas(p))
    b = draw(st.sampled_from(list(range(33, 49)) + [63, 64, 65, 66, 70, 96, 127, 128, 129]))
    a = draw(st.sampled_from([0, 0, 1, 5]))
    f = ('tun', draw(st.sampled_from(['eventually', 'always', 'eventually', 'always', 'once', 'historically'])), a, b, g)
    if draw(st.booleans()):
        f = ('un', 'not', f)
    h = F.horizon(f) or 0
    m = h + draw(st.integers(1, 12))
    n = m + draw(st.integers(1, 12))
    vals = st.sampled_from([0.0, 1.0, -1.0, 2.0, 3.0, -3.0])
    return {'formula': f, 'vars': vs, 'trace': {v: draw(st.lists(vals, min_size=n, max_size=n)) for v in vs}, 'cut': m}


@st.composite
def giant_cut_cases(draw, tier):
    """Windows of 200..1100 samples; the prefix ends shortly after the first windows are complete (or before)."""
    from ..common import giant_cases
    c = draw(giant_cases(F.TUN_PAST + F.TUN_FUT, ('since', 'until'), lengths='long'))
    n = len(c['trace']['x'])
    h = F.horizon(from_json(c['formula'])) or 0
    lo = min(n - 1, max(1, h - 2))
    cuts = set(min(n - 1, max(1, x)) for x in (lo, h, h + 1, h + 2, h + 5, h + 40, n - 1, n - 2, n // 2))
    # ... or right before / after an isolated extreme sample: the first sample that the prefix does not contain is the one
    # a window that reaches one sample too far would pick up
    spikes = [i for v in c['vars'] for i, x in enumerate(c['trace'][v]) if abs(x) >= 10 and h < i <= n - 1]
    if spikes and draw(st.integers(0, 2)) > 0:
        i = draw(st.sampled_from(spikes))
        cuts = {i, min(n - 1, i + 1)}
    c['cut'] = draw(st.sampled_from(sorted(cuts)))
    return c


def check(case):
    f = from_json(case['formula'])
    vs = list(case['vars'])
    tr = {v: [float(x) for x in case['trace'][v]] for v in vs}
    n = len(tr[vs[0]])
    m = case['cut']
    if not (1 <= m < n):
        return DISCARD('bad-cut')
    h = F.horizon(f)
    labels = feature_labels(f, n) + ['h:%s' % (h if h < 6 else '6+')]
    text = 'out = ' + show(f)
    w1 = {v: xs[:m] for v, xs in tr.items()}
    o2 = run_dt_off(text, vs, tr)
    o1 = run_dt_off(text, vs, w1)
    if o1[0] != 'ok' or o2[0] != 'ok':
        bad = o1 if o1[0] != 'ok' else o2
        return DISCARD('exception(C01/C17):%s' % bad[1], labels)
    v1 = [p[1] for p in o1[1]]
    v2 = [p[1] for p in o2[1]]
    tol = needs_tolerance(f)
    settled = [t for t in range(m) if t + h < m]
    bad = [t for t in settled if not same(v1[t], v2[t], tol)]
    unsettled_differs = any(v1[t] != v2[t] for t in range(m) if t + h >= m)
    nontrivial = bool(settled) and ((h >= 1 and unsettled_differs) or (h == 0 and F.n_temporal(f) >= 1))
    if bad:
        return FAIL('unstable:h=%s' % ('0' if h == 0 else '>0'),
                    'spec: %s   (horizon %d)\nw2: %s\nprefix length %d\nevaluate(w1): %s\nevaluate(w2): %s\nsettled sample %d differs' % (
                        text, h, tr, m, fmt_vals(v1), fmt_vals(v2[:m]), bad[0]), labels)
    return PASS(nontrivial, labels)


def candidates(case):
    for c in std_candidates(case):
        n = len(next(iter(c['trace'].values())))
        if n < 2:
            continue
        c = dict(c)
        c['cut'] = min(case['cut'], n - 1)
        yield c
    if case['cut'] > 1:
        c = dict(case)
        c['cut'] = case['cut'] - 1
        yield c


# ---- dense time ---------------------------------------------------------

from fractions import Fraction                                   # noqa: E402
from ..dense import (DENSE, ct_cases, case_q, to_time, norm_signals, dense_text, check_shape, ct_candidates)  # noqa: E402
from ..monitors import run_ct_off                                 # noqa: E402
from ..refsem import step_at                                      # noqa: E402

DENSE_NOUNB = DENSE.copy(un_temp=('once', 'historically'), bin_temp=('since',), tbin=('since', 'until'), max_bound=6)


@st.composite
def dense_cases(draw, tier):
    p = DENSE_NOUNB if tier == 'quick' else DENSE_NOUNB.copy(max_depth=4)
    c = draw(ct_cases(p, tier, max_samples=7, min_samples=2))
    kend = min(s[-1][0] for s in c['signals'].values())
    c['cut'] = draw(st.integers(1, max(1, kend)))
    return c


def restrict(sig, T):
    """The signal on [start, T]: samples before T plus a sample at T carrying the value the signal has there."""
    out = {}
    for v, s in sig.items():
        head = [(k, x) for k, x in s if k < T]
        val = [x for k, x in s if k <= T][-1]
        out[v] = head + [(T, val)]
    return out


def check_dense(case):
    f = from_json(case['formula'])
    vs = list(case['vars'])
    q = case_q(case)
    sig = norm_signals(case)
    used = F.fvars(f)
    labels = ['dense'] + feature_labels(f)
    if not used:
        return DISCARD('no-variable', labels)
    sig = {v: sig[v] for v in vs if v in used}
    feed = list(sig)
    h = F.horizon(f)
    T = case['cut']
    kend = min(s[-1][0] for s in sig.values())
    if not (1 <= T <= kend):
        return DISCARD('bad-cut', labels)
    text = dense_text(f, q)
    w1 = restrict(sig, T)
    o2 = run_ct_off(text, feed, to_time(sig, q))
    o1 = run_ct_off(text, feed, to_time(w1, q))
    if o1[0] != 'ok' or o2[0] != 'ok' or check_shape(o1[1]) or check_shape(o2[1]):
        return DISCARD('exception-or-shape(C04/C17)', labels)
    tol = needs_tolerance(f)
    compared = 0
    k2 = 0
    while Fraction(k2, 2) + h < T:
        t = float(Fraction(k2, 2) * q)
        a, b = step_at(o1[1], t), step_at(o2[1], t)
        compared += 1
        if a is None or b is None or not same(a, b, tol):
            return FAIL('unstable-dense:h=%s' % ('0' if h == 0 else '>0'),
                        'spec: %s   (horizon %g)\nw2: %s\nw1 = w2 on [0, %g]: %s\nevaluate(w1): %r\nevaluate(w2): %r\nat t=%g: %r vs %r' % (
                            text, float(h * q), to_time(sig, q), float(T * q), to_time(w1, q), o1[1], o2[1], t, a, b), labels)
        k2 += 1
    differs_later = o1[1] != o2[1]
    return PASS(compared >= 2 and differs_later and F.n_temporal(f) >= 1, labels)


def dense_candidates(case):
    for c in ct_candidates(case):
        kend = min(s[-1][0] for s in c['signals'].values())
        if kend < 1:
            continue
        c = dict(c)
        c['cut'] = min(case['cut'], kend)
        yield c
    if case['cut'] > 1:
        c = dict(case)
        c['cut'] = case['cut'] - 1
        yield c


LANES = [
    Lane('giant', lambda tier: giant_cut_cases(tier), check, 60, 600, None),
    Lane('verylong', lambda tier: verylong_cases(tier), check, 200, 3000, candidates),
    Lane('discrete', lambda tier: cases(tier), check, 6000, 80000, candidates),
    Lane('dense', lambda tier: dense_cases(tier), check_dense, 3000, 40000, dense_candidates),
]
