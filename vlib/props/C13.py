"""C13 - sampling_violation_counter counts exactly the out-of-tolerance gaps."""
import itertools
from fractions import Fraction

from hypothesis import strategies as st

from ..monitors import build, exc_outcome
from ..runner import Lane, PASS, FAIL, Stats, digest, jsonable

PROPERTY = 'C13'
QUICK_SCALE = 1.0      # the enumerated lane dominates the quick tier of this property

RULE = ('Time-stamp sequences t0 + sum(gaps), each gap = P*(1+k/16), k in [-15,32], P = sampling period expressed in the default '
        'unit; (period value, period unit, default unit) drawn from the combinations whose ratio is a dyadic rational (exact in '
        'binary floating point); tolerance in {0,1/16,0.1,1/8,1/4,1/2,1}; online (one stamp per update) and offline (time column). '
        'Oracle: counter == number of gaps outside [P(1-tol), P(1+tol)] computed with Fractions, and robustness values equal to the '
        'jitter-free run. Thorough adds an exhaustive lane over all sequences of <= 4 gaps from a boundary-heavy set. '
        'Non-trivial = >=2 gaps with >=1 inside and >=1 outside the tolerance, or period unit != default unit; distinct = distinct '
        '(stamps, configuration, mode) digests.')

ASSUMPTIONS = [
    'time stamps are expressed in the default unit of the specification (README, "Working with time units")',
    'gaps and periods are dyadic rationals so that no gap lies within floating-point noise of a tolerance boundary unless it is exactly on it; the interval is closed',
    'tolerance 0.1 is not dyadic: no generated gap is within 1e-6 relative of P(1+-0.1)',
    'a fresh specification object per case; the counter is read after all stamps have been supplied',
]

U = {'s': 10 ** 9, 'ms': 10 ** 6, 'us': 10 ** 3, 'ns': 1}
TOLS = [0.0, 1.0 / 16, 0.1, 0.125, 0.25, 0.5, 1.0]


def dyadic(fr):
    d = fr.denominator
    return d & (d - 1) == 0 and d <= 1024 and fr.numerator < 2 ** 40


CONFIGS = []
# (period values that are decimals without exact binary representation: 0.067 s is 67 ms - the number that was written)
for _v in (1, 2, 5, 10, 125, 250, 500, 1000, 2000, 0.067, 0.3, 0.007, 1.1, 2.5):
    for _pu in U:
        for _du in U:
            _P = Fraction(str(_v)) * U[_pu] / U[_du]
            if dyadic(_P) and _P >= Fraction(1, 8):
                CONFIGS.append((_v, _pu, _du))

SPEC = 'out = (x >= 2) since (y <= 1)'


def expected(stamps, P, tol):
    tol = Fraction(tol)
    lo, hi = P * (1 - tol), P * (1 + tol)
    cnt = 0
    for a, b in zip(stamps, stamps[1:]):
        g = Fraction(b) - Fraction(a)
        if g < lo or g > hi:
            cnt += 1
    return cnt


def make_stamps(P, t0k, ks):
    t = P * Fraction(t0k, 4)
    out = [t]
    for k in ks:
        t = t + P * (1 + Fraction(k, 16))
        out.append(t)
    return out


@st.composite
def cases(draw, max_gaps=11):
    v, pu, du = draw(st.sampled_from(CONFIGS))
    tol = draw(st.sampled_from(TOLS))
    ng = draw(st.sampled_from([0, 1, 1, 2, 2, 3, 3, 4, 5, 6, 8, max_gaps]))
    # -16: the time stamp is repeated (gap 0); below -16: the time stamp goes back (a negative gap lies outside every band, and the
    # next gap is measured from the stamp that was supplied last)
    kpool = st.one_of(st.sampled_from([-16, -15, -8, -4, -2, -1, 0, 0, 0, 1, 2, 3, 4, 8, 16, 17, 32, -24, -32]), st.integers(-16, 32))
    ks = [draw(kpool) for _ in range(ng)]
    t0k = draw(st.sampled_from([0, 0, 1, 4, 40, -8]))
    mode = draw(st.sampled_from(['online', 'offline']))
    xs = [draw(st.integers(-4, 8)) / 2.0 for _ in range(ng + 1)]
    ys = [draw(st.integers(-4, 8)) / 2.0 for _ in range(ng + 1)]
    # the dedicated offline / online class, or the combined class of the README (offline and online in one object)
    return {'period': [v, pu], 'unit': du, 'tol': tol, 'ks': ks, 't0k': t0k, 'mode': mode, 'x': xs, 'y': ys, 'combined': draw(st.booleans())}


def run(case, stamps):
    """Returns (counter, values) from rtamt, or an exception outcome."""
    v, pu = case['period']
    try:
        kind = 'dt_on' if case['mode'] == 'online' else 'dt_off'
        if case.get('combined'):
            kind = 'dt'
        spec = build(kind, SPEC, ['x', 'y'], unit=case['unit'], period=(v, pu, case['tol']))
        if case['mode'] == 'online':
            vals = []
            for i, t in enumerate(stamps):
                vals.append(spec.update(t, [('x', case['x'][i]), ('y', case['y'][i])]))
        else:
            out = spec.evaluate({'time': list(stamps), 'x': list(case['x']), 'y': list(case['y'])})
            vals = [p[1] for p in out]
        return ('ok', spec.sampling_violation_counter, vals)
    except Exception as e:  # noqa
        return exc_outcome(e)


def check(case):
    v, pu = case['period']
    du = case['unit']
    P = Fraction(str(v)) * U[pu] / U[du]
    stamps_fr = make_stamps(P, case['t0k'], case['ks'])
    stamps = [float(s) for s in stamps_fr]
    assert all(Fraction(s) == f for s, f in zip(stamps, stamps_fr)), 'generator: stamp not exact'
    tol = case['tol']
    exp = expected(stamps_fr, P, Fraction(tol) if tol != 0.1 else Fraction(1, 10))
    gaps_in = len(case['ks']) - exp
    labels = ['mode:' + case['mode'], 'class:' + ('combined' if case.get('combined') else 'dedicated'), 'gaps:%d' % min(len(case['ks']), 6), 'tol:%g' % tol,
              'unit-differs' if pu != du else 'unit-same']
    nontrivial = (len(case['ks']) >= 2 and exp >= 1 and gaps_in >= 1) or pu != du
    o = run(case, stamps)
    desc = 'period=%s%s default unit=%s tolerance=%g mode=%s class=%s\nstamps: %s (gap/P-1 in 16ths: %s)' % (
        v, pu, du, tol, case['mode'], 'StlDiscreteTimeSpecification' if case.get('combined') else 'dedicated', stamps, case['ks'])
    if o[0] != 'ok':
        return FAIL('exc:%s@%s' % (o[1], o[4]), desc + '\nraised %s: %s at %s' % (o[1], o[3], o[4]), labels)
    if o[1] != exp:
        kind = 'overcount' if o[1] > exp else 'undercount'
        return FAIL('counter:%s:%s%s' % (case['mode'], kind, ':combined-class' if case.get('combined') else ''), desc + '\nsampling_violation_counter = %r, expected %d' % (o[1], exp), labels)
    # robustness unaffected by jitter
    n = len(stamps)
    plain = [float(P * i) for i in range(n)]
    o2 = run(case, plain)
    if o2[0] == 'ok' and o2[2] != o[2]:
        return FAIL('values-depend-on-stamps:' + case['mode'], desc + '\nvalues %s vs %s on periodic stamps' % (o[2], o2[2]), labels)
    return PASS(nontrivial, labels)


def candidates(case):
    ks = case['ks']
    for i in range(len(ks)):
        c = dict(case)
        c['ks'] = ks[:i] + ks[i + 1:]
        c['x'] = case['x'][:len(c['ks']) + 1]
        c['y'] = case['y'][:len(c['ks']) + 1]
        yield c
    for i, k in enumerate(ks):
        if k != 0:
            c = dict(case)
            c['ks'] = ks[:i] + [0] + ks[i + 1:]
            yield c
    if case['t0k'] != 0:
        c = dict(case)
        c['t0k'] = 0
        yield c


def exhaustive(tier, seed, shard=0, nshards=1):
    """All sequences of <= 3 (thorough 4) gaps over a boundary-heavy set x all configurations x tolerances x modes."""
    stats = Stats()
    fails = {}
    kset = [-16, -15, -2, -1, 0, 1, 2, 3, 4, 8, 16, 32]
    maxg = 3 if tier == 'quick' else 4
    cfgs = CONFIGS if tier == 'thorough' else [c for c in CONFIGS if c[0] in (1, 250, 500)]
    combos = [(c, tol, mode) for c in cfgs for tol in TOLS for mode in ('online', 'offline')]
    for idx, ((v, pu, du), tol, mode) in enumerate(combos):
        if idx % nshards != shard:
            continue
        if True:
            if True:
                for ng in range(0, maxg + 1):
                    if ng <= 2 or (tier == 'thorough' and ng == 3):
                        seqs = itertools.product(kset, repeat=ng)
                    elif ng == 3:
                        seqs = itertools.product([-2, 0, 1, 2, 4, 16], repeat=ng)
                    elif v in (1, 250, 500):
                        seqs = itertools.product([-15, -2, 0, 1, 2, 4, 16], repeat=ng)
                    else:
                        continue
                    for ks in seqs:
                        case = {'period': [v, pu], 'unit': du, 'tol': tol, 'ks': list(ks), 't0k': 0, 'mode': mode,
                                'x': [1.0] * (ng + 1), 'y': [2.0] * (ng + 1)}
                        vd = check(case)
                        stats.add(case, vd, len(stats.samples) < 3)
                        if vd.status == 'fail' and vd.key not in fails:
                            fails[vd.key] = {'lane': 'exhaustive', 'key': vd.key, 'detail': vd.detail, 'case': jsonable(case), 'shrink_evals': 0}
    return stats.export(), list(fails.values())


@st.composite
def epoch_cases(draw):
    """Integer time stamps of epoch magnitude (nanoseconds since 1970, > 2**53) with the default unit ns."""
    pv, pu = draw(st.sampled_from([(1, 'ms'), (500, 'us'), (16, 'us'), (1, 's'), (100, 'ms')]))
    tol = draw(st.sampled_from(TOLS))
    ng = draw(st.sampled_from([1, 2, 3, 5, 8, 12]))
    ks = [draw(st.sampled_from([-16, -15, -2, -1, 0, 0, 0, 1, 2, 3, 4, 8, 16, 17, 32])) for _ in range(ng)]
    t0 = draw(st.sampled_from([1700000000000000000, 1700000000123456789, 2 ** 53 + 1, 2 ** 60 + 12345, 9007199254740993]))
    return {'period': [pv, pu], 'tol': tol, 'ks': ks, 't0': t0, 'mode': draw(st.sampled_from(['online', 'offline'])),
            'x': [draw(st.integers(-4, 8)) / 2.0 for _ in range(ng + 1)], 'y': [draw(st.integers(-4, 8)) / 2.0 for _ in range(ng + 1)]}


def check_epoch(case):
    pv, pu = case['period']
    P = pv * U[pu]                 # period in ns, a multiple of 16
    stamps = [case['t0']]
    for k in case['ks']:
        stamps.append(stamps[-1] + P * (16 + k) // 16)
    tol = case['tol']
    exp = expected(stamps, Fraction(P), Fraction(tol) if tol != 0.1 else Fraction(1, 10))
    labels = ['mode:' + case['mode'], 'epoch-int-stamps', 'tol:%g' % tol]
    c = dict(case, unit='ns')
    o = run(c, stamps)
    desc = 'period=%s%s default unit=ns tolerance=%g mode=%s\ninteger stamps: %s' % (pv, pu, tol, case['mode'], stamps)
    if o[0] != 'ok':
        return FAIL('exc:%s@%s' % (o[1], o[4]), desc + '\nraised %s: %s at %s' % (o[1], o[3], o[4]), labels)
    if o[1] != exp:
        return FAIL('counter:epoch:%s' % case['mode'], desc + '\nsampling_violation_counter = %r, expected %d' % (o[1], exp), labels)
    return PASS(len(case['ks']) >= 2, labels)


@st.composite
def reuse_cases(draw):
    """One object serves two recordings; between them the default unit is changed (no new set_sampling_period())."""
    a = draw(cases(6))
    b = draw(cases(6))
    b['period'] = a['period']
    b['tol'] = a['tol']
    b['mode'] = a['mode']
    # second default unit: any unit in which the period is still dyadic
    v, pu = a['period']
    alts = [du for (vv, ppu, du) in CONFIGS if vv == v and ppu == pu]
    if not alts:
        alts = [a['unit']]
    b['unit'] = draw(st.sampled_from(alts))
    return {'first': a, 'second': b}


def check_reuse(case):
    a, b = case['first'], case['second']
    v, pu = a['period']
    labels = ['mode:' + a['mode'], 'reuse', 'unit-change' if a['unit'] != b['unit'] else 'same-unit']
    Pa = Fraction(str(v)) * U[pu] / U[a['unit']]
    Pb = Fraction(str(v)) * U[pu] / U[b['unit']]
    if not (dyadic(Pa) and dyadic(Pb)):
        return PASS(False, labels + ['skipped-non-dyadic'])
    sa = make_stamps(Pa, a['t0k'], a['ks'])
    sb = make_stamps(Pb, b['t0k'], b['ks'])
    tol = a['tol']
    tf = Fraction(tol) if tol != 0.1 else Fraction(1, 10)
    ea, eb = expected(sa, Pa, tf), expected(sb, Pb, tf)
    desc = 'period=%s%s tolerance=%g mode=%s\nfirst recording (unit %s): %s\nsecond recording (unit %s): %s' % (
        v, pu, tol, a['mode'], a['unit'], [float(x) for x in sa], b['unit'], [float(x) for x in sb])
    try:
        kind = 'dt_on' if a['mode'] == 'online' else 'dt_off'
        spec = build(kind, SPEC, ['x', 'y'], unit=a['unit'], period=(v, pu, tol))
        if a['mode'] == 'online':
            for i, t in enumerate(sa):
                spec.update(float(t), [('x', a['x'][i]), ('y', a['y'][i])])
            c1 = spec.sampling_violation_counter
            spec.reset()
            spec.unit = b['unit']
            for i, t in enumerate(sb):
                spec.update(float(t), [('x', b['x'][i]), ('y', b['y'][i])])
            c2 = spec.sampling_violation_counter
            want2 = eb
        else:
            spec.evaluate({'time': [float(t) for t in sa], 'x': list(a['x']), 'y': list(a['y'])})
            c1 = spec.sampling_violation_counter
            spec.unit = b['unit']
            spec.evaluate({'time': [float(t) for t in sb], 'x': list(b['x']), 'y': list(b['y'])})
            # the offline counter may accumulate over evaluate() calls (as it does today) or restart per call:
            # the statement does not say, both readings are accepted
            total = spec.sampling_violation_counter
            c2 = eb if total in (eb, c1 + eb) else total - c1
            want2 = eb
    except Exception as e:  # noqa
        o = exc_outcome(e)
        return FAIL('reuse-exc:%s@%s' % (o[1], o[4]), desc + '\nraised %s: %s at %s' % (o[1], o[3], o[4]), labels)
    if c1 != ea:
        return FAIL('counter:reuse-first:' + a['mode'], desc + '\nafter the first recording the counter is %r, expected %d' % (c1, ea), labels)
    if c2 != want2:
        return FAIL('counter:reuse-second:' + a['mode'], desc + '\nthe second recording added %r violations, expected %d' % (c2, want2), labels)
    return PASS(a['unit'] != b['unit'] and len(b['ks']) >= 1, labels)


LANES = [
    Lane('epoch', lambda tier: epoch_cases(), check_epoch, 1500, 20000, None),
    Lane('reuse', lambda tier: reuse_cases(), check_reuse, 2000, 30000, None),
    Lane('random', lambda tier: cases(11 if tier == 'quick' else 20), check, 12000, 200000, candidates),
    Lane('exhaustive', None, check, 1, 1, None, custom=exhaustive, shards=16),
]

EXTRA_COVERAGE = {'exhaustive_lane': 'all gap sequences up to length 2 (thorough: 3) over k in {-16,-15,-2,-1,0,1,2,3,4,8,16,32}/16 (-16: a repeated time stamp), length 3 (thorough: 4, for 36 configurations) over a 6 (7) element subset, x %d unit configurations x %d tolerances x online/offline' % (len(CONFIGS), len(TOLS))}
