"""C20 - explanations of a violation are a sufficient cause."""
from hypothesis import strategies as st

from .. import formula as F
from ..common import std_candidates, feature_labels, fmt_vals
from ..formula import Profile, from_json, show
from ..monitors import build, exc_outcome, dt_dataset
from ..refsem import dt, bool_dt, Undefined
from ..runner import Lane, PASS, FAIL, DISCARD

PROPERTY = 'C20'

RULE = ('Formulas of the fragment the explainer supports (no since/until; arithmetic, comparisons, Boolean, rise/fall, prev/next, bounded and '
        'unbounded once/historically/eventually/always), 1-3 variables with the same variable occurring in several places forced in half of '
        'the cases, formulas up to depth 5 with styles plain / simple predicates (var cmp const, depth spent on temporal nesting) / two-branches (the same variable under two temporal operators with different windows); traces of length 1-8 on which the reference robustness at time 0 is < 0 (the formula is negated if it is satisfied). '
        'evaluate(); explain(); E = union of the index intervals reported under each input variable. Each case carries 10 generated '
        're-assignments of ALL samples (extreme +-1000 and small dyadic values); positions in E are put back to the original values and the '
        'reference must still give rho(phi, w\', 0) < 0. Lane splitter: formulas T(s1 C1 (X(p) C2 s2)) - a wide temporal operator over connectives '
        'whose other operands are predicates on separate variables with alternating / complementary sign patterns, so that the temporal operator X '
        'is asked to explain several disjoint intervals; each variable occurs once, the formula is monotone in it, and the 8 assignments '
        '"all non-reported samples of a variable at +1000 / -1000" contain the most adversarial one (sufficiency decided exactly); 8-16 traces of '
        '3-9 samples per parsed formula, a failure is confirmed on a freshly parsed specification. Lane since_until: specifications with since / until / unless: explain() refuses them with an RTAMTException, or what it reports is a sufficient cause. Lane satisfied: rho(phi,w,0) > 0 => nothing is reported. Lane modular: some sub-formulas are named requirements of their own (referenced once or several times; one text or add_sub_spec), optionally with a requirement nothing refers to; the specification is read as the set of its requirements (violated at 0 if one of them is, which is when explain() reports something). Non-trivial = E does not '
        'cover every sample of every variable, the formula has >= 1 temporal operator and n >= 2 (two cases in three draw a sampling period of 1 ms .. 2 s and a default unit, bounds then written in ms; some of these objects are first evaluated and explained under a shorter period and re-configured with set_sampling_period()); distinct = distinct (formula, trace) digests.')

ASSUMPTIONS = [
    '"violated at time 0" is read as robustness < 0, the criterion explain() itself uses; traces with rho(phi,w,0) == 0 are discarded',
    'bounds are counted in samples in the reference; cases either use sampling period 1 s with bare bounds or a drawn sampling period (1 ms .. 2 s) and default unit (s, ms) with the bounds written as durations in ms; a fresh StlDiscreteTimeOfflineSpecification per case (per formula in the splitter lane)',
    'intervals are closed index ranges [begin, end] of sample positions',
]

EXPL = Profile(bin_temp=(), tbin=(), max_depth=4, max_bound=4, temporal_in_arith=False)

ALT_VALUES = st.sampled_from([-1000.0, 1000.0, -1000.0, 1000.0, 0.0, 1.0, -1.0, 0.5, 2.0, -2.5, 3.0, 8.0, -8.0])


# None: sampling period 1 s, default unit s, bare bounds; otherwise a sampling period and a default unit, bounds written in ms
TIMINGS = st.sampled_from([None, None, {'period_ms': 1000, 'unit': 's'}, {'period_ms': 500, 'unit': 's'}, {'period_ms': 2000, 'unit': 's'},
                           {'period_ms': 100, 'unit': 'ms'}, {'period_ms': 1, 'unit': 'ms'}, {'period_ms': 250, 'unit': 'ms'}])

SIGN_ALTS = [dict(zip('pqr', combo)) for combo in
             [(a, b, c) for a in (-1000.0, 1000.0) for b in (-1000.0, 1000.0) for c in (-1000.0, 1000.0)]]


@st.composite
def splitter_case(draw, tier):
    """T( s1 C1 ( X(p) C2 s2 ) ): a wide temporal operator on top, connectives whose other operands (predicates on the
    variables q and r) change sign several times - so that X is asked to explain several disjoint intervals - and a temporal
    operator X over the variable p.  Every variable occurs in exactly one predicate, so the formula is monotone in each
    variable and the 8 assignments "all free samples of a variable at +1000 / at -1000" contain the most adversarial one:
    for these cases sufficiency is decided exactly.  One formula is evaluated on several traces (one parse)."""
    def pred(v):
        pr = ('pred', draw(st.sampled_from(['>=', '>', '<=', '<'])), ('var', v), ('const', 0.0))
        return ('un', 'not', pr) if draw(st.integers(0, 3)) == 0 else pr

    def temporal(g, wide):
        kind = draw(st.sampled_from(['tun', 'tun', 'un']))
        if kind == 'un':
            return ('un', draw(st.sampled_from(['once', 'historically', 'eventually', 'always', 'once', 'historically', 'eventually', 'always', 'once', 'historically', 'prev', 'next', 'rise', 'fall'])), g)
        b = draw(st.integers(2, 5)) if wide else draw(st.integers(0, 3))
        a = draw(st.integers(0, min(b, 2)))
        return ('tun', draw(st.sampled_from(['once', 'historically', 'eventually', 'always'])), a, b, g)
    x = temporal(pred('p'), False)
    if draw(st.integers(0, 2)) == 0:
        x = ('un', 'not', x)
    if draw(st.integers(0, 3)) == 0:
        x = temporal(x, False)
    conn = st.sampled_from(['and', 'or', 'implies'])
    shape = draw(st.integers(0, 5))
    if shape == 0:
        inner = x                                  # X directly under the splitting connective
    else:
        inner = ('bin', draw(conn), x, pred('q')) if draw(st.booleans()) else ('bin', draw(conn), pred('q'), x)
    if shape == 1:
        inner = ('un', 'not', inner)
    mid = ('bin', draw(conn), pred('r'), inner) if draw(st.booleans()) else ('bin', draw(conn), inner, pred('r'))
    f = temporal(mid, True)
    if draw(st.integers(0, 3)) == 0:
        f = temporal(f, False)
    n = draw(st.integers(3, 9))
    ntr = 8 if tier == 'quick' else 16
    full = (1 << n) - 1
    alternating = sum(1 << i for i in range(0, n, 2))

    def pattern():
        k = draw(st.integers(0, 5))
        if k <= 2:
            return draw(st.integers(0, full))
        if k == 3:
            return alternating ^ draw(st.sampled_from([0, full]))
        if k == 4:                                  # one flip
            return ((1 << draw(st.integers(0, n))) - 1) ^ draw(st.sampled_from([0, full]))
        return draw(st.integers(0, full)) & draw(st.integers(0, full))
    traces = []
    for _ in range(ntr):
        # sign patterns: q arbitrary; r in two cases out of three equal or complementary to q (with at most one sample
        # flipped), so that the blame alternates between the operands of the outer connective; p constant half of the time
        q = pattern()
        k = draw(st.integers(0, 5))
        if k <= 3:
            r = q ^ (full if k & 1 else 0)
            if draw(st.integers(0, 3)) == 0:
                r ^= 1 << draw(st.integers(0, n - 1))
        else:
            r = pattern()
        p = pattern() if draw(st.booleans()) else draw(st.sampled_from([0, full]))
        mags = draw(st.integers(0, (1 << (3 * n)) - 1))
        tr = {}
        for j, (v, bits) in enumerate((('p', p), ('q', q), ('r', r))):
            tr[v] = [(1.0 if (bits >> i) & 1 else -1.0) * (1 + ((mags >> (3 * i + j)) & 1)) for i in range(n)]
        traces.append(tr)
    return {'formula': f, 'vars': ['p', 'q', 'r'], 'traces': traces, 'timing': draw(TIMINGS)}


def check_splitter(case):
    """Runs the ordinary check on every trace of the case with the specification object parsed once per formula;
    a failure is confirmed with a freshly parsed specification before it is reported."""
    f = from_json(case['formula'])
    cache = {}
    nontrivial = False
    labels = set()
    n_ok = 0
    for k, tr in enumerate(case['traces']):
        n = len(tr['p'])
        single = {'formula': case['formula'], 'vars': case['vars'], 'trace': tr, 'want_satisfied': False, 'timing': case.get('timing'),
                  'alts': [{v: [a[v]] * n for v in case['vars']} for a in SIGN_ALTS]}
        v = check(single, cache)
        if v.status == 'fail':
            v = check(single)
            if v.status == 'fail':
                v.detail = 'trace %d of the case\n' % k + v.detail
                return v
            return FAIL('HARNESS:reused-specification-differs', 'trace %d: the check fails on a reused specification object only\n%s' % (k, v.detail), list(labels))
        if v.status == 'pass':
            n_ok += 1
            nontrivial = nontrivial or v.nontrivial
            labels.update(v.labels or ())
    if not n_ok:
        return DISCARD('all-traces-discarded', sorted(labels))
    return PASS(nontrivial, sorted(labels))


def splitter_candidates(case):
    if len(case['traces']) > 1:
        for tr in case['traces']:
            yield dict(case, traces=[tr])
    for c in std_candidates({'formula': case['formula'], 'vars': case['vars'], 'trace': case['traces'][0]}):
        if set(c['vars']) == set(case['vars']) and len(case['traces']) == 1:
            yield {'formula': c['formula'], 'vars': case['vars'], 'traces': [c['trace']]}


@st.composite
def cases(draw, tier, satisfied=False):
    p = EXPL.copy(max_depth=5) if tier == 'quick' else EXPL.copy(max_depth=6)
    style = draw(st.sampled_from(['plain', 'simple-predicates', 'simple-predicates', 'two-branches', 'term-temporal', 'both-contexts']))
    if style != 'plain':
        # predicates "var cmp const": the depth budget goes into temporal / Boolean nesting
        p = p.copy(const_pred_only=True, bare_operand=False)
    elif draw(st.booleans()):
        # temporal operators below arithmetic and predicates (x * (always y) > 0): no polarity reaches them
        p = p.copy(temporal_in_arith=True)
    nv = draw(st.sampled_from([1, 1, 2, 3])) if style != 'both-contexts' else draw(st.sampled_from([2, 3, 3, 3]))
    start = draw(st.integers(0, len(F.VAR_POOL) - 1))
    vs = [F.VAR_POOL[(start + i) % len(F.VAR_POOL)] for i in range(nv)]
    f, _ = draw(F.formulas(p, variables=vs))
    if style == 'two-branches':
        # the same variable under two temporal operators with different windows (nested / overlapping explanations)
        def branch():
            v = ('var', vs[0])
            pr = ('pred', draw(st.sampled_from(['>', '>=', '<', '<='])), v, ('const', draw(st.sampled_from([0.0, 1.0, 2.0]))))
            if draw(st.booleans()):
                pr = ('un', 'not', pr)
            b = draw(st.integers(0, 6))
            a = draw(st.integers(0, b))
            g = ('tun', draw(st.sampled_from(['eventually', 'always', 'once', 'historically'])), a, b, pr)
            if draw(st.integers(0, 2)) == 0:
                b2 = draw(st.integers(0, 4))
                g = ('tun', draw(st.sampled_from(['eventually', 'always'])), draw(st.integers(0, b2)), b2, g)
            return g
        f = ('bin', draw(st.sampled_from(['and', 'or', 'implies'])), branch(), branch())
        if draw(st.integers(0, 2)) == 0:
            f = ('un', 'not', f)
    if style == 'term-temporal':
        # a temporal operator inside an arithmetic term, or a negated / scaled term as a Boolean-level operand:
        # x * (always y) > 0,  -(once y),  abs(x) - (eventually[0,2] y) <= 1
        v1, v2 = ('var', draw(st.sampled_from(vs))), ('var', draw(st.sampled_from(vs)))
        b = draw(st.integers(0, 3))
        pq = (('pred', '>=', v2, ('const', 0.0)), ('pred', draw(st.sampled_from(['>=', '<'])), v1, ('const', draw(st.sampled_from([0.0, 1.0])))))
        inner = draw(st.sampled_from([v2, ('pred', '>=', v2, ('const', 0.0)), ('un', 'abs', v2),
                                      # a Boolean connective below the temporal operator: as a number, the term depends on both operands
                                      ('bin', 'or', pq[0], pq[1]), ('bin', 'and', pq[0], pq[1]), ('bin', 'implies', pq[0], pq[1])]))
        t = draw(st.sampled_from([('un', draw(st.sampled_from(['always', 'eventually', 'once', 'historically'])), inner),
                                  ('tun', draw(st.sampled_from(['always', 'eventually', 'once', 'historically'])), draw(st.integers(0, b)), b, inner)]))
        term = draw(st.sampled_from([('bin', '*', v1, t), ('bin', '-', v1, t), ('bin', '-', t, v1), ('un', 'neg', t), ('bin', '*', t, ('un', 'neg', v1)),
                                     ('un', 'abs', t), ('bin', '+', t, v1), ('bin', '/', v1, ('bin', '+', ('un', 'abs', t), ('const', 1.0)))]))
        g = term if draw(st.integers(0, 3)) == 0 else ('pred', draw(st.sampled_from(['>', '>=', '<', '<='])), term, ('const', draw(st.sampled_from([0.0, 1.0, 2.0]))))
        if draw(st.integers(0, 4)) == 0:
            # ... or the temporal formula as an operand of iff / xor
            g = ('bin', draw(st.sampled_from(['iff', 'xor'])), t, ('pred', '>=', v1, ('const', draw(st.sampled_from([0.0, 2.0])))))
        k = draw(st.integers(0, 3))
        f = [g, ('un', 'not', g), ('bin', draw(st.sampled_from(['and', 'or', 'implies'])), g, f), ('un', draw(st.sampled_from(['always', 'eventually'])), g)][k]
    if style == 'both-contexts':
        # the same temporal sub-formula once as a Boolean operand and once inside a term (a comparison, iff / xor, arithmetic):
        # as a Boolean operand a witness explains it, as a number it depends on everything it is computed from
        v1, v2, v3 = [('var', vs[i % len(vs)]) for i in range(3)]
        cs = st.sampled_from([0.0, 1.0, -1.0, 2.0])
        pa, pb = ('pred', '>=', v1, ('const', draw(cs))), ('pred', draw(st.sampled_from(['>=', '<'])), v2, ('const', draw(cs)))
        inner = draw(st.sampled_from([('bin', 'and', pa, pb), ('bin', 'and', pa, pb), ('bin', 'or', pa, pb), ('bin', 'implies', pa, pb), pa]))
        b = draw(st.integers(0, 3))
        nn = ('tun', draw(st.sampled_from(['eventually', 'always', 'once', 'historically'])), 0, b, inner)
        asnum = draw(st.sampled_from([('pred', draw(st.sampled_from(['<=', '>=', '<', '>'])), nn, v3), ('bin', draw(st.sampled_from(['iff', 'xor'])), nn, pb),
                                      ('pred', '>=', ('bin', '-', nn, v3), ('const', 0.0)), ('pred', '<=', ('un', 'abs', nn), ('const', 1.0))]))
        op = draw(st.sampled_from(['or', 'and', 'implies']))
        f = ('bin', op, nn, asnum) if draw(st.booleans()) else ('bin', op, asnum, nn)
        if draw(st.integers(0, 3)) == 0:
            f = ('un', 'not', f)
    n = draw(F.trace_lengths(8))
    # values off the integer/half grid so that robustness 0 (no verdict) is rare
    vals = st.integers(-16, 15).map(lambda k: (k + 0.5) / 2.0)
    tr = {v: draw(st.lists(vals, min_size=n, max_size=n)) for v in vs}
    alts = []
    if not satisfied:
        for _ in range(10):
            alts.append({v: [draw(ALT_VALUES) for _ in range(n)] for v in vs})
        # ... and re-assignments that draw from the values of the trace itself (of any variable): two sub-formulas can then
        # reach exactly the same robustness, which is the only way to satisfy an iff (rho = -|a-b|) or to falsify a xor
        pool = st.sampled_from(sorted(set(x for xs in tr.values() for x in xs)))
        for _ in range(6):
            alts.append({v: [draw(pool) for _ in range(n)] for v in vs})
    return {'formula': f, 'vars': vs, 'trace': tr, 'alts': alts, 'want_satisfied': satisfied, 'timing': draw(TIMINGS),
            'first_period_ms': draw(st.sampled_from([None, None, 50, 100, 250, 500, 1000]))}


def explained_positions(expl, names, n):
    """Union of the reported index intervals per variable name; also returns malformed entries."""
    E = {}
    bad = []
    for v in names:
        pos = set()
        for iv in expl.get(v, []) or []:
            try:
                b, e = iv
                b, e = int(b), int(e)
            except Exception:
                bad.append((v, iv))
                continue
            for i in range(max(b, 0), min(e, n - 1) + 1):
                pos.add(i)
            if b < 0 or e > n - 1 or b > e:
                bad.append((v, iv))
        E[v] = pos
    return E, bad


def check(case, cache=None):
    f = from_json(case['formula'])
    vs = list(case['vars'])
    tr = {v: [float(x) for x in case['trace'][v]] for v in vs}
    n = len(tr[vs[0]])
    used = F.fvars(f)
    labels = feature_labels(f, n)
    if not used:
        return DISCARD('no-variable', labels)
    feed = [v for v in vs if v in used]
    w = {v: tr[v] for v in feed}
    try:
        r0 = dt(f, w, n)[0]
    except Undefined:
        return DISCARD('undefined', labels)
    if r0 == 0:
        return PASS(False, labels + ['rho=0:no-verdict'])      # neither violated nor satisfied with margin: uninformative, counted as trivial
    want_sat = case['want_satisfied']
    if (r0 > 0) != want_sat:
        f = ('un', 'not', f)
        r0 = -r0
    timing = case.get('timing')
    if timing:
        # bounds are counted in samples; they are written as durations in ms under the sampling period of the case
        pms = timing['period_ms']
        text = 'out = ' + show(f, lambda a, b: '[%dms,%dms]' % (a * pms, b * pms))
        labels = labels + ['period:%dms' % pms, 'unit:' + timing['unit']]
    else:
        text = 'out = ' + show(f)
    try:
        spec = cache.get(text) if cache is not None else None
        if spec is None:
            if timing:
                pv, pu = (timing['period_ms'], 'ms') if timing['period_ms'] % 1000 else (timing['period_ms'] // 1000, 's')
                first = case.get('first_period_ms')
                if first and cache is None and timing['period_ms'] % first == 0 and first != timing['period_ms']:
                    # the object is first used (evaluate + explain) under a shorter sampling period, then re-configured
                    spec = build('dt_off', text, feed, unit=timing['unit'], period=(first, 'ms', 0.1), dedicated=True)
                    per_unit = {'s': 1000.0, 'ms': 1.0}[timing['unit']]
                    spec.evaluate(dt_dataset(w, [i * first / per_unit for i in range(n)]))
                    try:
                        spec.explain()
                    except Exception:  # noqa
                        pass
                    spec.set_sampling_period(pv, pu, 0.1)
                    labels = labels + ['reconfigured-after-explain']
                else:
                    spec = build('dt_off', text, feed, unit=timing['unit'], period=(pv, pu, 0.1), dedicated=True)
            else:
                spec = build('dt_off', text, feed, dedicated=True)
            if cache is not None:
                cache[text] = spec
        tcol = None
        if timing:
            per_unit = {'s': 1000.0, 'ms': 1.0}[timing['unit']]
            tcol = [i * timing['period_ms'] / per_unit for i in range(n)]
        out = spec.evaluate(dt_dataset(w, tcol))
    except Exception as e:  # noqa
        return DISCARD('evaluate-raises(C01/C17):' + type(e).__name__, labels)
    if (out[0][1] < 0) != (r0 < 0) or out[0][1] == 0:
        return DISCARD('offline-differs-from-reference(C01)', labels)
    desc = 'spec: %s\ntrace: %s   (rho at 0: %g)' % (text, w, r0)
    if timing:
        desc = 'sampling period %d ms, default unit %s (bounds in the reference: duration / period)\n' % (timing['period_ms'], timing['unit']) + desc
        if 'reconfigured-after-explain' in labels:
            desc = 'the object was evaluated and explained under a sampling period of %d ms first, then set_sampling_period()\n' % case['first_period_ms'] + desc
    try:
        spec.explain()
    except Exception as e:  # noqa
        o = exc_outcome(e)
        if o[2] and any(x in ('since', 'until', 'since[]', 'until[]', 'unless[]') for x in F.ops(f)):
            # explanations of since / until are not implemented: refusing them with an RTAMTException is a clean answer
            # (an explanation that is returned for them has to be a sufficient cause like any other)
            return PASS(True, labels + ['explain-refuses-since/until'])
        return FAIL('explain-raises:%s@%s' % (o[1], o[4].split(':')[-1]), desc + '\nexplain() raised %s: %s at %s' % (o[1], o[3], o[4]), labels)
    expl = spec.explainer.explanations
    E, bad = explained_positions(expl, feed, n)
    # the explainer also records the intervals requested from every sub-formula (by printed name): measure how often a
    # temporal operator has to explain two or more disjoint intervals
    try:
        if any(len(iv or ()) >= 2 for nm, iv in expl.items()
               if nm not in feed and nm.lstrip('(').startswith(('once', 'historically', 'eventually', 'always', 'prev', 'next', 'rise', 'fall'))):
            labels = labels + ['temporal-operator-explains->=2-intervals']
    except Exception:  # noqa
        pass
    if want_sat:
        reported = {v: expl.get(v) for v in feed if expl.get(v)}
        if reported:
            return FAIL('satisfied-but-reported', desc + '\nsatisfied at time 0 but explanations were reported: %r' % (reported,), labels)
        return PASS(F.n_temporal(f) >= 1, labels + ['satisfied'])
    if bad:
        return FAIL('malformed-interval', desc + '\nreported intervals outside the trace or malformed: %r' % (bad,), labels)
    shown = {v: sorted(E[v]) for v in feed}
    for k, alt in enumerate(case['alts']):
        w2 = {}
        for v in feed:
            xs = [float(x) for x in alt[v]][:n]
            xs += [0.0] * (n - len(xs))
            for i in E[v]:
                xs[i] = w[v][i]
            w2[v] = xs
        try:
            r2 = dt(f, w2, n)[0]
        except Undefined:
            continue
        if r2 == 0:
            # boundary: "violated" could be read as Boolean violation; only a trace that is satisfied under both readings counts
            try:
                b2 = bool_dt(f, w2, n)[0]
            except Exception:
                b2 = None
            if b2 is not True:
                continue
        if not (r2 < 0):
            top = attribute(f)
            return FAIL('not-sufficient:' + top, desc + '\nreported positions: %s\ntrace agreeing with the original on all reported positions: %s\n'
                        'its robustness at time 0 is %g (not violated)' % (shown, w2, r2), labels)
    full = all(len(E[v]) == n for v in feed)
    return PASS((not full) and F.n_temporal(f) >= 1 and n >= 2, labels + (['E-full'] if full else []))


def attribute(f):
    """Coarse bucket: the set of temporal/event operators in the formula (smallest distinguishing feature after shrinking)."""
    ops = sorted(set(o for o in F.ops(f) if o in F.TEMPORAL_OPS))
    dup = len(F.fvars(f)) < sum(1 for s in F.subterms(f) if s[0] == 'var')
    return '+'.join(ops[:3]) + ('+repeated-variable' if dup and not ops else '') or ('repeated-variable' if dup else 'boolean')


def candidates(case):
    for c in std_candidates(case):
        n = len(next(iter(c['trace'].values())))
        c = dict(c)
        c['alts'] = [{v: a[v][:n] if len(next(iter(case['trace'].values()))) == n else a[v][-n:] for v in c['vars']} for a in case['alts']]
        yield c
    if len(case['alts']) > 1:
        for i in range(len(case['alts'])):
            c = dict(case)
            c['alts'] = [case['alts'][i]]
            yield c


# ---- specifications with named sub-specifications / several requirements ------------------------------

@st.composite
def modular_cases(draw, tier):
    """The formula of a case with some of its sub-formulas hoisted into named requirements (every re-occurrence replaced by
    the name, so that a name may be referenced twice), optionally a further requirement that nothing refers to."""
    c = draw(cases(tier, False))
    f = from_json(c['formula'])
    cands = sorted(set(x for x in F.subterms(f) if x[0] not in ('var', 'const') and x != f and F.fvars(x)), key=lambda x: (F.size(x), repr(x)))
    k = min(len(cands), draw(st.sampled_from([1, 1, 2])))
    subs = []
    if k:
        allsub = list(F.subterms(f))
        weighted = [i for i, x in enumerate(cands) for _ in range(1 + (3 if allsub.count(x) >= 2 else 0) + (1 if F.n_temporal(x) else 0))]
        subs = [cands[i] for i in sorted(set(draw(st.lists(st.sampled_from(weighted), min_size=k, max_size=k))))]
    if subs and draw(st.integers(0, 2)) == 0:
        # the same named requirement referenced at two places with different look-ahead / look-back
        s0 = subs[-1]
        f = ('bin', draw(st.sampled_from(['and', 'or', 'implies'])), f, ('un', draw(st.sampled_from(['next', 'prev', 'not', 'eventually', 'once'])), s0))
        c['formula'] = f
    extra = None
    if draw(st.integers(0, 2)) == 0:
        extra, _ = draw(F.formulas(EXPL.copy(max_depth=3), variables=c['vars']))
        if not F.fvars(extra):
            extra = None
    c['subs'] = subs
    c['extra'] = extra
    c['timing'] = None
    c['delivery'] = draw(st.sampled_from(['assertions', 'add_sub_spec']))
    return c


def check_modular(case):
    """The specification is the set of its requirements: it is violated at time 0 if one of them has negative robustness
    there (that is when explain() reports something), satisfied if all are positive."""
    from ..modular import modular_texts
    f = from_json(case['formula'])
    vs = list(case['vars'])
    tr = {v: [float(x) for x in case['trace'][v]] for v in vs}
    n = len(tr[vs[0]])
    subs = [from_json(x) for x in case['subs']]
    extra = from_json(case['extra']) if case.get('extra') is not None else None
    reqs = subs + ([extra] if extra is not None else []) + [f]
    used = sorted(set(v for g in reqs for v in F.fvars(g)))
    labels = feature_labels(f, n) + ['modular', 'subs:%d' % len(subs)] + (['unreferenced-requirement'] if extra is not None else [])
    if not F.fvars(f):
        return DISCARD('no-variable', labels)
    feed = [v for v in vs if v in used]
    w = {v: tr[v] for v in feed}
    try:
        r = [dt(g, w, n)[0] for g in reqs]
    except Undefined:
        return DISCARD('undefined', labels)
    if min(r) == 0 or (min(r) > 0 and any(x == 0 for x in r)):
        return PASS(False, labels + ['rho=0:no-verdict'])
    mc = {'formula': f, 'subs': subs, 'consts': [], 'late_inline': None, 'extra': extra, 'kind': 'dt_off'}
    bodies, main, _ = modular_texts(mc, lambda g: show(g))
    if case.get('delivery') == 'add_sub_spec':
        subspecs = ['%s = %s;' % (nm, t) for nm, t in bodies]
        text = 'out = ' + main
    else:
        subspecs = []
        text = ' '.join('%s = %s;' % (nm, t) for nm, t in bodies) + ' out = ' + main
    desc = 'requirements%s: %s | %s\ntrace: %s\nrobustness of the requirements at 0: %s' % (
        ' (sub-specifications through add_sub_spec)' if subspecs else '', subspecs, text, w, r)
    try:
        spec = build('dt_off', text, feed, subspecs=subspecs, dedicated=True)
        spec.evaluate(dt_dataset(w, None))
    except Exception as e:  # noqa
        return DISCARD('evaluate-raises(C09/C17):' + type(e).__name__, labels)
    try:
        spec.explain()
    except Exception as e:  # noqa
        o = exc_outcome(e)
        return FAIL('explain-raises:modular:%s' % o[1], desc + '\nexplain() raised %s: %s at %s' % (o[1], o[3], o[4]), labels)
    expl = spec.explainer.explanations
    E, bad = explained_positions(expl, feed, n)
    if min(r) > 0:
        reported = {v: expl.get(v) for v in feed if expl.get(v)}
        if reported:
            return FAIL('satisfied-but-reported:modular', desc + '\nevery requirement is satisfied at time 0 but explanations were reported: %r' % (reported,), labels)
        return PASS(bool(subs), labels + ['satisfied'])
    if bad:
        return FAIL('malformed-interval:modular', desc + '\nreported intervals outside the trace or malformed: %r' % (bad,), labels)
    shown = {v: sorted(E[v]) for v in feed}
    for alt in case['alts']:
        w2 = {}
        for v in feed:
            xs = [float(x) for x in alt[v]][:n]
            xs += [0.0] * (n - len(xs))
            for i in E[v]:
                xs[i] = w[v][i]
            w2[v] = xs
        try:
            r2 = [dt(g, w2, n)[0] for g in reqs]
        except Undefined:
            continue
        if min(r2) < 0:
            continue
        if any(x == 0 for x in r2):
            try:
                if not all(bool_dt(g, w2, n)[0] is True for g in reqs):
                    continue
            except Exception:  # noqa
                continue
        return FAIL('not-sufficient:modular', desc + '\nreported positions: %s\ntrace agreeing with the original on all reported positions: %s\n'
                    'robustness of the requirements at time 0: %s (none violated)' % (shown, w2, r2), labels)
    full = all(len(E[v]) == n for v in feed)
    return PASS(bool(subs) and not full and n >= 2, labels)


def modular_candidates(case):
    for c in candidates(case):
        c = dict(c)
        fs = set(F.subterms(from_json(c['formula'])))
        c['subs'] = [x for x in case['subs'] if from_json(x) in fs and from_json(x) != from_json(c['formula'])]
        if c.get('extra') is not None and not set(F.fvars(from_json(c['extra']))) <= set(c['vars']):
            c['extra'] = None
        yield c
    if case.get('extra') is not None:
        yield dict(case, extra=None)
    if len(case['subs']) > 1:
        for i in range(len(case['subs'])):
            yield dict(case, subs=case['subs'][:i] + case['subs'][i + 1:])


SINCE_UNTIL = Profile(max_depth=4, max_bound=4, temporal_in_arith=False, tbin=('since', 'until', 'unless'))


@st.composite
def since_until_cases(draw, tier):
    """Specifications with since / until / unless (bounded or not): explain() either refuses them with an RTAMTException or
    reports a sufficient cause."""
    c = draw(cases(tier, False))
    vs = c['vars']
    g, _ = draw(F.formulas(SINCE_UNTIL.copy(max_depth=3), variables=vs))
    h, _ = draw(F.formulas(EXPL.copy(max_depth=2), variables=vs))
    b = draw(st.integers(0, 3))
    a = draw(st.integers(0, b))
    top = draw(st.sampled_from([('bin', 'since', g, h), ('bin', 'until', h, g), ('tbin', 'until', a, b, h, g), ('tbin', 'since', a, b, g, h), ('tbin', 'unless', a, b, h, g)]))
    c['formula'] = top if draw(st.booleans()) else ('bin', draw(st.sampled_from(['and', 'or', 'implies'])), from_json(c['formula']), top)
    c['timing'] = None
    c['first_period_ms'] = None
    return c


LANES = [
    Lane('since_until', since_until_cases, check, 1500, 15000, candidates),
    Lane('modular', modular_cases, check_modular, 2500, 25000, modular_candidates),
    Lane('violated', lambda tier: cases(tier, False), check, 3000, 40000, candidates),
    Lane('satisfied', lambda tier: cases(tier, True), check, 800, 8000, candidates),
    Lane('splitter', splitter_case, check_splitter, 4000, 40000, splitter_candidates),
]
