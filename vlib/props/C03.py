"""C03 - the pastified bounded-future monitor reports the original robustness with fixed delay h."""
from hypothesis import strategies as st

from .. import formula as F
from ..common import dt_cases, std_candidates, feature_labels, fmt_vals
from ..formula import Profile, from_json, show
from ..monitors import run_dt_on, build, exc_outcome
from ..refsem import dt, Undefined, needs_tolerance, same
from ..runner import Lane, PASS, FAIL, DISCARD

PROPERTY = 'C03'

RULE = ('Bounded-future typed grammar (bounded eventually/always/until, next/s_next, all past operators, Boolean, arithmetic incl. unary '
        'minus/ln/log; a binary node with children of different horizon is frequent) x random traces of length up to h+8. Oracle: '
        'parse(); pastify(); feed one sample per update; for every i >= h (h = harness horizon, next counts 1): update_i == '
        'R-dt(phi, w[0..i])[i-h] (reference on the trace seen so far); in one case in five pastify() is called twice. Lane giant: eventually/always (and once/historically) with windows of 200..1100 samples (around 256, 512, 1024), alone, negated, with their dual, twice over different variables or next to a sibling without look-ahead, on mostly flat traces with isolated extreme samples. Lane pastonly: specifications without future operators: pastified '
        'monitor == un-pastified monitor == R-dt at every step. Lanes units / units_pastonly (machinery of C08): two spellings of the same durations with unit suffixes, another default unit and '
        'a sampling period != 1 s, compared with each other and with the reference after pastify(). Lane reject: an unbounded future operator makes pastify() raise RTAMTException. Non-trivial = h >= 1, n > h '
        'and the formula has two siblings of different horizon or a future operator nested in a future operator (pastonly: a stateful '
        'operator); distinct = distinct (formula text, trace) digests.')

ASSUMPTIONS = [
    'h = largest total of upper bounds along a chain of nested future operators, next/s_next = 1 (property text)',
    'outputs for i < h are unconstrained',
    'conventions of C01 for the reference',
]

BFUT = Profile(un_temp=F.UN_PAST + ('next', 's_next'), bin_temp=F.BIN_PAST, tbin=('since', 'until'), max_bound=3, max_depth=4)
BFUT_ALL = BFUT.copy(no_future_under_past=False)
PASTP = Profile(un_temp=F.UN_PAST, bin_temp=F.BIN_PAST, tun=F.TUN_PAST, tbin=F.TBIN_PAST, max_bound=4)


def _p(tier, base, **kw):
    p = base.copy(**kw)
    if tier == 'thorough':
        p.max_depth += 1
        p.max_bound += 2
    return p


@st.composite
def main_cases(draw, tier, base=None):
    p = _p(tier, base or BFUT)
    f, vs = draw(F.formulas(p))
    shape = draw(st.sampled_from(['plain', 'sibling', 'sibling', 'nested', 'nested', 'term-future']))
    if shape == 'term-future':
        # a predicate with look-ahead: a bounded future operator (window from 0, so always finite) or one next inside a term
        v1, v2 = ('var', draw(st.sampled_from(vs))), ('var', draw(st.sampled_from(vs)))
        b = draw(st.integers(0, 3))
        fut = draw(st.sampled_from([('tun', 'eventually', 0, b, v1), ('tun', 'always', 0, b, v1), ('un', 'next', v1), ('un', 's_next', v1),
                                    ('tun', 'eventually', 0, b, ('un', 'abs', v1))]))
        other = draw(st.sampled_from([v2, ('tun', 'always', 0, draw(st.integers(0, 2)), v2), ('const', 1.0), ('un', 'abs', v2)]))
        if fut[0] == 'un' and other[0] == 'tun':
            other = v2
        one = ('const', 1.0)
        term = draw(st.sampled_from([('bin', '-', fut, other), ('bin', '-', other, fut), ('un', 'abs', ('bin', '-', fut, other)), ('bin', '+', fut, other), fut,
                                     # look-ahead in the second argument of a two-place function (and in the first)
                                     ('bin', 'pow', ('bin', '+', ('un', 'abs', v2), one), fut), ('bin', 'pow', ('bin', '+', ('un', 'abs', fut), one), v2),
                                     ('bin', 'log', ('bin', '+', ('un', 'abs', v2), ('const', 2.0)), ('bin', '+', ('un', 'abs', fut), ('const', 2.0)))]))
        g = ('pred', draw(st.sampled_from(['<=', '>=', '<', '>'])), term, ('const', draw(st.sampled_from([0.0, 1.0, 2.0]))))
        k = draw(st.integers(0, 3))
        f = [g, ('bin', draw(st.sampled_from(['and', 'or', 'implies'])), g, f), ('tun', draw(st.sampled_from(['always', 'eventually'])), 0, draw(st.integers(0, 2)), g),
             ('bin', draw(st.sampled_from(['and', 'or'])), ('pred', '>=', v2, ('const', 1.0)), g)][k]
    if shape == 'sibling':
        # a binary node whose children have different horizons (one side delayed by the pastifier)
        g, _ = draw(F.formulas(p.copy(max_depth=3), variables=vs))
        op = draw(st.sampled_from(['and', 'or', 'implies', 'and', 'or', 'since[]', 'until[]', 'since']))
        b = draw(st.integers(0, 2))
        a = draw(st.integers(0, b))
        if draw(st.booleans()):
            f, g = g, f
        if op == 'since' and not (F.has_future(f) or F.has_future(g)) or op in ('and', 'or', 'implies'):
            f = ('bin', op if op != 'since' else 'and', f, g) if op != 'since' else ('bin', 'since', f, g)
        elif op == 'until[]':
            f = ('tbin', 'until', a, b, f, g)
        elif op == 'since[]' and not (F.has_future(f) or F.has_future(g)):
            f = ('tbin', 'since', a, b, f, g)
        else:
            f = ('bin', 'and', f, g)
    elif shape == 'nested':
        # a future operator directly above the formula
        op = draw(st.sampled_from(['eventually', 'always', 'next', 's_next', 'until']))
        b = draw(st.integers(0, 3))
        a = draw(st.integers(0, b))
        if op in ('eventually', 'always'):
            f = ('tun', op, a, b, f)
        elif op == 'until':
            g, _ = draw(F.formulas(p.copy(max_depth=2), variables=vs))
            f = ('tbin', 'until', a, b, g, f)
        else:
            f = ('un', op, f)
    h = F.horizon(f) or 0
    n = h + draw(st.sampled_from([1, 1, 2, 3, 4, 5, 6, 8]))
    tr = draw(F.traces(vs, n=n))
    # one case in five calls pastify() a second time: the rewritten specification has no future operator left, so the
    # second call must not change anything
    return {'formula': f, 'vars': vs, 'trace': tr, 'pastify_twice': draw(st.integers(0, 4)) == 0}


def strat_pastonly(tier):
    return dt_cases(_p(tier, PASTP), max_n=10)


@st.composite
def reject_cases(draw, tier):
    p = _p(tier, BFUT, max_depth=3)
    f, vs = draw(F.formulas(p))
    other, _ = draw(F.formulas(p.copy(max_depth=2), variables=vs))
    what = draw(st.sampled_from(['eventually', 'always', 'until']))
    path = draw(st.lists(st.integers(0, 1), max_size=3))
    tr = draw(F.traces(vs, n=3))
    return {'formula': f, 'vars': vs, 'trace': tr, 'what': what, 'path': path, 'other': other}


@st.composite
def timestamp_cases(draw, tier):
    """The main cases with time stamps other than 0, 1, 2, ... on the updates (repeated stamps, one stamp for all, irregular
    floats, epoch seconds, a negative start): the values of a pastified monitor do not depend on them either."""
    c = draw(main_cases(tier))
    n = len(next(iter(c['trace'].values())))
    kind = draw(st.sampled_from(['repeated', 'repeated', 'constant', 'irregular', 'epoch', 'negative']))
    if kind == 'repeated':
        t, col = 0, []
        for _ in range(n):
            col.append(t)
            t += draw(st.sampled_from([0, 0, 1, 1, 2]))
    elif kind == 'constant':
        col = [draw(st.sampled_from([0, 5, 2.5]))] * n
    elif kind == 'irregular':
        t, col = 0.0, []
        for _ in range(n):
            col.append(t)
            t += draw(st.sampled_from([0.25, 1.0, 1.0, 1.5, 10.0]))
    elif kind == 'epoch':
        col = [1700000000 + i for i in range(n)]
    else:
        col = [-5 + i for i in range(n)]
    c['time'], c['time_kind'] = col, kind
    return c


def horizon_features(f):
    """two siblings of different horizon, or a future operator nested in a future operator"""
    sib = False
    nest = False
    for s in F.subterms(f):
        kids = F.children(s)
        if len(kids) == 2 and F.horizon(kids[0]) != F.horizon(kids[1]):
            sib = True
        if F.op_of(s) in F.FUTURE_OPS and any(F.has_future(k) for k in kids):
            nest = True
    return sib, nest


def classify(f):
    """Feature classes used for bucketing and for the known-finding profile switches."""
    cls = set()
    for s in F.subterms(f):
        op = F.op_of(s)
        kids = F.children(s)
        if op in ('once', 'historically', 'since', 'prev', 's_prev', 'rise', 'fall', 'once[]', 'historically[]', 'since[]') \
                and any((F.horizon(k) or 0) > 0 for k in kids):
            cls.add('past-op-over-future-operand')
    return cls


KNOWN_WARMUP_RAISES = 'raises-during-warm-up:partial-function-over-delayed-operand'
WARMUP_SITES = ('log_operation.py', 'ln_operation.py', 'sqrt_operation.py')


def guarded_updates(text, feed, w, times, tcol):
    """(outputs, indices of the updates that raised) of a pastified monitor whose caller catches the exceptions of update()."""
    try:
        spec = build('dt_on', text, feed, pastify=times)
    except Exception:  # noqa
        return None
    outs, raised = [], set()
    n = len(w[feed[0]])
    for i in range(n):
        try:
            outs.append(spec.update(tcol[i] if tcol is not None else i, [(v, w[v][i]) for v in feed]))
        except RecursionError:
            raise
        except Exception:  # noqa
            outs.append(None)
            raised.add(i)
    return outs, raised


def check_main(case):
    f = from_json(case['formula'])
    vs = list(case['vars'])
    tr = {v: [float(x) for x in case['trace'][v]] for v in vs}
    n = len(tr[vs[0]])
    labels = feature_labels(f, n)
    h = F.horizon(f)
    if h is None:
        return DISCARD('unbounded', labels)
    used = F.fvars(f)
    if not used:
        return DISCARD('no-variable', labels)
    feed = [v for v in vs if v in used]
    w = {v: tr[v] for v in feed}
    text = 'out = ' + show(f)
    labels.append('h:%s' % (h if h < 8 else '8+'))
    cls = classify(f)
    labels += ['class:' + c for c in sorted(cls)]
    try:
        refs = {}
        for i in range(h, n):
            refs[i] = dt(f, {v: xs[:i + 1] for v, xs in w.items()}, i + 1)[i - h]
    except Undefined:
        return DISCARD('undefined', labels)
    times = 2 if case.get('pastify_twice') else 1
    if times == 2:
        labels.append('pastify-twice')
        text = text + '   [pastify() called twice]'
    tcol = case.get('time')
    if tcol is not None:
        labels.append('time-stamps:' + case.get('time_kind', 'given'))
        text = text + '   [time stamps of the updates: %s]' % (tcol,)
    o = run_dt_on(text.split('   [')[0], feed, w, pastify=times, time=tcol)
    warm = None
    if o[0] != 'ok' and h >= 1 and o[4].split(':')[0].endswith(WARMUP_SITES):
        # open finding: a partial function applied to an operand that pastify() delays reads the -inf of the delay line during
        # the first updates and raises. The caller may catch that; the run is repeated with every update guarded
        warm = guarded_updates(text.split('   [')[0], feed, w, times, tcol)
    if warm is not None and warm[1] and min(warm[1]) < h:
        later = [i for i in range(h, n) if warm[0][i] is None or not same(warm[0][i], refs[i], needs_tolerance(f))]
        return FAIL(KNOWN_WARMUP_RAISES, 'spec: %s (horizon %d)\ntrace: %s\nthe pastified monitor raised %s (%s) at update(s) %s, the first of them before the horizon; a caller that catches the exception gets %s, '
                    'expected from update %d on: %s%s' % (text, h, w, o[1], o[3], sorted(warm[1]), warm[0], h, fmt_vals([refs[i] for i in range(h, n)]),
                                                        ' (the update that raised left the delay lines of the other operands one step behind)' if later else ''), labels + ['raises-during-warm-up'])
    if o[0] != 'ok':
        return FAIL('exc:%s@%s' % (o[1], o[4]), 'spec: %s (horizon %d)\ntrace: %s\npastified monitor raised %s: %s at %s' % (
            text, h, w, o[1], o[3], o[4]), labels)
    got = o[1]
    tol = needs_tolerance(f)
    bad = [i for i in range(h, n) if not same(got[i], refs[i], tol)]
    sib, nest = horizon_features(f)
    nontrivial = h >= 1 and n > h and (sib or nest)
    if bad:
        key = 'mismatch:' + ('+'.join(sorted(cls)) if cls else attribute(f, feed, w, n))
        return FAIL(key, 'spec: %s   (horizon %d)\ntrace: %s\npastified updates: %s\nexpected from step %d: %s\nfirst differing update: %d' % (
            text, h, w, fmt_vals(got), h, fmt_vals([refs[i] for i in range(h, n)]), bad[0]), labels)
    return PASS(nontrivial, labels)


def attribute(f, vs, w, n):
    """Top operator of the smallest sub-formula whose pastified monitor is wrong."""
    for s in sorted(set(F.subterms(f)), key=F.size):
        if s[0] in ('var', 'const'):
            continue
        hs = F.horizon(s)
        used = F.fvars(s)
        if hs is None or not used:
            continue
        ws = {v: w[v] for v in used}
        o = run_dt_on('out = ' + show(s), list(ws), ws, pastify=True)
        if o[0] != 'ok':
            return 'exc-in:' + F.op_of(s)
        try:
            for i in range(hs, n):
                r = dt(s, {v: xs[:i + 1] for v, xs in ws.items()}, i + 1)[i - hs]
                if not same(o[1][i], r, needs_tolerance(s)):
                    return F.op_of(s)
        except Undefined:
            continue
    return 'nested'


def check_pastonly(case):
    f = from_json(case['formula'])
    vs = list(case['vars'])
    tr = {v: [float(x) for x in case['trace'][v]] for v in vs}
    n = len(tr[vs[0]])
    labels = feature_labels(f, n)
    used = F.fvars(f)
    if not used:
        return DISCARD('no-variable', labels)
    feed = [v for v in vs if v in used]
    w = {v: tr[v] for v in feed}
    text = 'out = ' + show(f)
    try:
        ref = dt(f, w, n)
    except Undefined:
        return DISCARD('undefined', labels)
    o1 = run_dt_on(text, feed, w, pastify=True)
    o0 = run_dt_on(text, feed, w, pastify=False)
    if o0[0] != 'ok':
        return DISCARD('unpastified-raises(C17)', labels)
    if o1[0] != 'ok':
        return FAIL('pastonly-exc:%s@%s' % (o1[1], o1[4]), 'spec: %s\ntrace: %s\npastified monitor raised %s: %s at %s' % (text, w, o1[1], o1[3], o1[4]), labels)
    tol = needs_tolerance(f)
    if any(not same(a, b, tol) for a, b in zip(o0[1], ref)):
        return DISCARD('online-differs-from-reference(C02)', labels)
    if any(not same(a, b, tol) for a, b in zip(o1[1], ref)):
        return FAIL('pastonly-changed:' + F.op_of(f), 'spec without future operators: %s\ntrace: %s\npastified:    %s\nun-pastified: %s' % (
            text, w, fmt_vals(o1[1]), fmt_vals(o0[1])), labels)
    stateful = any(o in F.STATEFUL_ONLINE for o in F.ops(f))
    return PASS(stateful and n >= 2, labels)


def check_reject(case):
    from .C17 import insert_at
    f = from_json(case['formula'])
    other = from_json(case['other'])
    what = case['what']
    vs = list(case['vars'])

    def make(sub):
        if what == 'until':
            return ('bin', 'until', sub, other)
        return ('un', what, sub)
    g = insert_at(f, list(case['path']), make)
    labels = ['reject:' + what]
    text = 'out = ' + show(g)
    try:
        spec = build('dt_on', text, vs)
    except Exception as e:  # noqa
        o = exc_outcome(e)
        return FAIL('reject-parse-exc:%s' % o[1], 'spec: %s\nparse raised %s: %s' % (text, o[1], o[3]), labels)
    try:
        spec.pastify()
    except Exception as e:  # noqa
        o = exc_outcome(e)
        if o[2]:
            return PASS(len(case['path']) > 0, labels)
        return FAIL('reject-wrong-exception:%s:%s' % (what, o[1]), 'spec: %s\npastify() raised %s (not RTAMTException): %s at %s' % (text, o[1], o[3], o[4]), labels)
    return FAIL('reject-accepted:' + what, 'spec: %s\npastify() of an unbounded future operator returned normally' % text, labels)


def cand_reject(case):
    from ..common import formula_candidates
    if case['path']:
        c = dict(case)
        c['path'] = case['path'][:-1]
        yield c
    for key in ('formula', 'other'):
        for f2 in formula_candidates(from_json(case[key])):
            if f2[0] == 'const' or not F.fvars(f2):
                continue
            c = dict(case)
            c[key] = f2
            yield c


@st.composite
def past_over_future_cases(draw, tier):
    """Past operators with memory directly over operands of positive horizon (nested both ways)."""
    p = _p(tier, BFUT_ALL, max_depth=3)
    f, vs = draw(F.formulas(p))
    for _ in range(draw(st.integers(1, 3))):
        b = draw(st.integers(0, 3))
        a = draw(st.integers(0, b))
        g, _ = draw(F.formulas(p.copy(max_depth=2), variables=vs))
        kind = draw(st.sampled_from(['fut', 'fut', 'past1', 'past1', 'past2', 'tpast1', 'tpast2', 'bool']))
        if kind == 'fut':
            f = draw(st.sampled_from([('tun', 'eventually', a, b, f), ('tun', 'always', a, b, f), ('un', 'next', f), ('tbin', 'until', a, b, g, f),
                                      ('tbin', 'until', a, b, f, g)]))
        elif kind == 'past1':
            f = ('un', draw(st.sampled_from(['once', 'historically', 'prev', 's_prev', 'rise', 'fall'])), f)
        elif kind == 'past2':
            f = ('bin', 'since', f, g) if draw(st.booleans()) else ('bin', 'since', g, f)
        elif kind == 'tpast1':
            f = ('tun', draw(st.sampled_from(['once', 'historically'])), a, b, f)
        elif kind == 'tpast2':
            f = ('tbin', 'since', a, b, f, g) if draw(st.booleans()) else ('tbin', 'since', a, b, g, f)
        else:
            f = ('bin', draw(st.sampled_from(['and', 'or', 'implies'])), f, g)
    h = F.horizon(f) or 0
    n = h + draw(st.sampled_from([1, 2, 3, 4, 6, 8]))
    return {'formula': f, 'vars': vs, 'trace': draw(F.traces(vs, n=n))}


def check_finding(case):
    """Lane that concentrates on past operators over operands of positive horizon (an open finding until 0eaf2e3)."""
    f = from_json(case['formula'])
    if 'past-op-over-future-operand' not in classify(f):
        return PASS(False, ['not-past-over-future'])
    return check_main(case)


# ---- units: the C08 machinery (two spellings of the same durations, compared with each other and with the reference) ----

def _units_cases(tier, pastonly):
    from . import C08
    from hypothesis import strategies as st2

    @st2.composite
    def mk(draw):
        c = draw(C08.cases(tier, 'pastified'))
        if pastonly:
            f, vs = draw(F.formulas(C08.PROF_PAST))
            f = draw(C08.ensure_timed(f, 'online'))
            c['formula'], c['vars'] = f, vs
            n = draw(F.trace_lengths(8))
            c['trace'] = draw(F.traces(vs, n=n))
        return c
    return mk()


def check_units(case):
    from . import C08
    return C08.check(case)


@st.composite
def giant_cases_(draw, tier):
    """Bounded eventually / always (and once / historically) with windows of 200..1100 samples, pastified."""
    from ..common import giant_cases
    c = draw(giant_cases(F.TUN_FUT + F.TUN_FUT + F.TUN_PAST, lengths='long'))
    if draw(st.integers(0, 2)) == 0:
        # a sibling without look-ahead: the pastifier has to delay it by the whole horizon
        y = ('pred', draw(st.sampled_from(['>=', '<'])), ('var', draw(st.sampled_from(c['vars']))), ('const', 1.0))
        c['formula'] = ('bin', draw(st.sampled_from(['and', 'or', 'implies'])), y, c['formula']) if draw(st.booleans()) else \
            ('bin', draw(st.sampled_from(['and', 'or'])), c['formula'], y)
    return c


def check_giant(case):
    """As check_main, but the reference is evaluated once on the whole trace: for a formula without unbounded future
    operators the value at i-h on the prefix w[0..i] is the value at i-h on the whole trace (every window that starts at
    i-h ends at i at the latest); the shortcut is cross-checked on the first and the last compared update."""
    f = from_json(case['formula'])
    vs = list(case['vars'])
    tr = {v: [float(x) for x in case['trace'][v]] for v in vs}
    n = len(tr[vs[0]])
    labels = feature_labels(f, n) + ['giant']
    h = F.horizon(f)
    if h is None:
        return DISCARD('unbounded', labels)
    used = F.fvars(f)
    feed = [v for v in vs if v in used]
    if not feed or n <= h:
        return DISCARD('no-variable-or-short', labels)
    w = {v: tr[v] for v in feed}
    text = 'out = ' + show(f)
    try:
        whole = dt(f, w, n)
        for i in (h, n - 1):
            if dt(f, {v: xs[:i + 1] for v, xs in w.items()}, i + 1)[i - h] != whole[i - h]:
                return DISCARD('HARNESS:prefix-shortcut', labels)
    except Undefined:
        return DISCARD('undefined', labels)
    o = run_dt_on(text, feed, w, pastify=True)
    if o[0] != 'ok':
        return FAIL('exc:%s@%s' % (o[1], o[4]), 'spec: %s (horizon %d)\ntrace: %s\npastified monitor raised %s: %s at %s' % (
            text, h, w, o[1], o[3], o[4]), labels)
    got = o[1]
    bad = [i for i in range(h, n) if not same(got[i], whole[i - h], False)]
    if bad:
        i = bad[0]
        return FAIL('mismatch:giant-window', 'spec: %s   (horizon %d)\ntrace (%d samples): %s\nupdate %d returned %r, the original formula at sample %d is %r' % (
            text, h, n, w, i, got[i], i - h, whole[i - h]), labels)
    return PASS(h >= 200 and n - h >= 2, labels)


LANES = [
    Lane('giant', giant_cases_, check_giant, 60, 600, None),
    Lane('units', lambda tier: _units_cases(tier, False), check_units, 1500, 20000, std_candidates),
    Lane('units_pastonly', lambda tier: _units_cases(tier, True), check_units, 800, 10000, std_candidates),
    Lane('timestamps', lambda tier: timestamp_cases(tier), check_main, 1500, 15000, std_candidates),
    Lane('main', lambda tier: main_cases(tier), check_main, 4000, 60000, std_candidates),
    Lane('warmup', lambda tier: past_over_future_cases(tier), check_finding, 1000, 15000, std_candidates),
    Lane('pastonly', strat_pastonly, check_pastonly, 1500, 20000, std_candidates),
    Lane('reject', lambda tier: reject_cases(tier), check_reject, 600, 5000, cand_reject),
]
