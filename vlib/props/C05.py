"""C05 - dense-time online output does not depend on how the input is chunked."""
import itertools
import math
import os
from fractions import Fraction

from hypothesis import strategies as st

from .. import formula as F
from ..common import feature_labels
from ..dense import (DENSE_PAST, DENSE, QUANTA, ct_cases, case_q, to_time, norm_signals, dense_text, check_shape, ct_candidates)
from ..formula import from_json
from ..monitors import build, exc_outcome, run_ct_off
from ..refsem import ct_cells, Undefined, needs_tolerance, same, step_at
from ..runner import Lane, PASS, FAIL, DISCARD, Stats, jsonable

PROPERTY = 'C05'

RULE = ('Dense-time past fragment (once/historically/since bounded and unbounded, Boolean, arithmetic, predicates) and a pastified lane '
        '(bounded eventually/always, pastify() first) on grid signals of up to 6 samples per variable; a schedule cuts the input into '
        'successive update() calls: all at once, one sample per update, random common cut instants, and per-variable independent cuts '
        '(one operand runs ahead); lanes for unbounded operators under arbitrary schedules, bounded / pastified operators in one update and in several updates; for one-variable cases with <= 5 samples ALL 2^(n-1) schedules are enumerated for a fixed family of 12 formulas; lane skewed: 34-70 samples per variable, one variable delivered completely (or in one update) before the others, so that two-operand nodes keep a long backlog; in the per-variable schedules a variable without new samples is either listed with an empty list or (after its first mention) left out of the call. lane bigint_time: untimed past formulas on signals whose time stamps are Python integers of the order of 1.7e18, a few units apart, in one or two updates, read at integer instants. lane staggered: formulas without temporal operators over variables whose signals start at different instants (compared from the latest start on). lane far_twins: two bounded past operators over one operand with bounds of 10^6..10^8 time units that differ in the seventh or a later digit, compared with the dense-time offline monitor of rtamt itself (the grid reference would need 10^7 cells). in one case in four the caller passes the same list object per variable in every call and refills it in place. Oracle: (i) every '
        'returned element is a [time, value] pair with finite time and the concatenation has non-decreasing time stamps; (ii) read as a '
        'step function it equals the grid reference R-ct (shifted by the horizon after pastify) at every cell start / midpoint it '
        'covers; (iii) two schedules of the same case agree wherever both cover. Non-trivial = >= 2 update calls, non-empty output and '
        '>= 1 temporal or binary operator; distinct = distinct (formula, signals, schedule) digests.')

ASSUMPTIONS = [
    'conventions of C04 for the reference (non-strict since, last value held, signals start together at 0)',
    'the output covers the interval between its first and last time stamp',
    'a disagreement in which rtamt offline also differs from the reference is attributed to C04',
    'a variable may be left out of an update() call only after it was listed in an earlier call (the first call lists every variable, possibly with an empty list)',
]


def split_common(sig_t, cuts):
    """Batches with common cut instants: batch j has the samples with cut[j-1] < t <= cut[j]."""
    out = []
    lo = -1.0
    for hi in list(cuts) + [float('inf')]:
        b = {v: [s for s in xs if lo < s[0] <= hi] for v, xs in sig_t.items()}
        if any(b.values()):
            out.append(b)
        lo = hi
    return out


def split_independent(sig_t, masks):
    """Per-variable cut masks: masks[v][i] == 1 means 'cut after sample i'.  Round r delivers the r-th piece of every variable."""
    pieces = {}
    for v, xs in sig_t.items():
        m = masks.get(v, [])
        cur = []
        ps = []
        for i, s in enumerate(xs):
            cur.append(s)
            if i < len(xs) - 1 and i < len(m) and m[i]:
                ps.append(cur)
                cur = []
        ps.append(cur)
        pieces[v] = ps
    rounds = max(len(p) for p in pieces.values())
    out = []
    for r in range(rounds):
        out.append({v: (pieces[v][r] if r < len(pieces[v]) else []) for v in sig_t})
    return out


def run_schedule(text, feed, batches, pastify, omit_empty=False, refill=False, edit_outputs=False):
    try:
        spec = build('ct_on', text, feed, pastify=pastify)
        outs = []
        listed = set()
        own = {v: [] for v in feed}          # refill: the caller keeps one list per variable and refills it in place for every call
        for b in batches:
            # a variable without new samples is either listed with an empty list or - once it has been listed in an
            # earlier call - left out of the call (before its first mention the monitor holds no sample list for it)
            if refill:
                for v in feed:
                    own[v][:] = [list(s) for s in b[v]]
                args = [[v, own[v]] for v in feed if b[v] or not omit_empty or v not in listed]
            else:
                args = [[v, [list(s) for s in b[v]]] for v in feed if b[v] or not omit_empty or v not in listed]
            listed.update(a[0] for a in args)
            out = spec.update(*args)
            # copied at once: the monitor may hand back the caller's own list object (out = x), which a refilling caller reuses
            outs.append([list(p) if isinstance(p, (list, tuple)) else p for p in out] if isinstance(out, list) else out)
            if edit_outputs and isinstance(out, list):
                # the caller converts the samples it received in place (another time axis); samples that are the caller's
                # own input objects (out = x hands them back) are left alone
                mine = set(id(p) for a in args for p in a[1])
                for p in out:
                    if isinstance(p, list) and id(p) not in mine and len(p) == 2 and isinstance(p[0], (int, float)):
                        p[0] = p[0] * 1000.0 + 7.0
        return ('ok', outs)
    except RecursionError:
        raise
    except Exception as e:  # noqa
        return exc_outcome(e)


def concat(outs):
    res = []
    for o in outs:
        if isinstance(o, list):
            res.extend(o)
    return res


def covered_points(out, q):
    """Cell starts and midpoints inside [first stamp, last stamp] of the output."""
    if not out:
        return []
    lo, hi = Fraction(out[0][0]), Fraction(out[-1][0])
    pts = []
    k = int(math.ceil(lo / q))
    while Fraction(k) * q <= hi:
        pts.append(Fraction(k) * q)
        if Fraction(k) * q + q / 2 < hi:
            pts.append(Fraction(k) * q + q / 2)
        k += 1
    return pts


KNOWN_KEY = 'bounded-operator-chunked'


def in_known_class(f, nbatches, pastified):
    """Open finding: a bounded operator (once[a,b], historically[a,b], since[a,b]; after pastify also eventually/always[a,b])
    of the dense-time online monitor that receives its input in more than one update."""
    return nbatches >= 2 and any(s[0] in ('tun', 'tbin') for s in F.subterms(f))


@st.composite
def cases(draw, tier, pastified=False, bounded=True, chunked=True, shifted=False):
    if pastified:
        prof = DENSE.copy(un_temp=('once', 'historically'), bin_temp=('since',), tbin=('since',), max_bound=4)
    else:
        prof = DENSE_PAST.copy(max_bound=6)
    if not bounded:
        prof = prof.copy(tun=(), tbin=())
    if tier == 'thorough':
        prof = prof.copy(max_depth=4)
    c = draw(ct_cases(prof, tier, max_samples=6, min_samples=2, shifted=shifted))
    c['pastified'] = pastified
    nmax = max(len(s) for s in c['signals'].values())
    kind = draw(st.sampled_from(['common', 'common', 'single', 'independent'])) if chunked else 'whole'
    c['schedule'] = kind
    ts = sorted(set(k for s in c['signals'].values() for k, _ in s))
    if kind == 'common':
        c['cuts'] = sorted(set(draw(st.lists(st.sampled_from(ts), min_size=1, max_size=4))))
    elif kind == 'single':
        c['cuts'] = ts
    else:
        c['masks'] = {v: draw(st.lists(st.integers(0, 1), min_size=nmax, max_size=nmax)) for v in c['vars']}
        c['omit_empty'] = draw(st.booleans())
    # the caller passes the same list object per variable in every call and refills it in place (a receive buffer)
    c['refill'] = draw(st.integers(0, 3)) == 0
    # the caller edits the samples it got back in place (e.g. converts their time stamps) before the next call
    c['edit_outputs'] = draw(st.integers(0, 3)) == 0
    return c


@st.composite
def staggered_cases(draw, tier):
    """Formulas without temporal operators over two or three variables whose signals start at different instants."""
    from ..dense import grid_signal
    prof = DENSE_PAST.copy(un_temp=(), bin_temp=(), tun=(), tbin=(), max_depth=3, nvars=draw(st.sampled_from([2, 2, 3])))
    c = draw(cases(tier, False, bounded=False))
    f, vs = draw(F.formulas(prof))
    if len(F.fvars(f)) < 2:
        # two operands over different variables
        vs = list(F.VAR_POOL[:2])
        if draw(st.booleans()):
            fa, _ = draw(F.formulas(prof.copy(max_depth=2), variables=vs[:1]))
            fb, _ = draw(F.formulas(prof.copy(max_depth=2), variables=vs[1:]))
            if not F.fvars(fa):
                fa = ('var', vs[0])
            if not F.fvars(fb):
                fb = ('var', vs[1])
            f = ('bin', draw(st.sampled_from(['and', 'or', 'implies'])), fa, fb)
        else:
            f = ('pred', draw(st.sampled_from(['<=', '>=', '<', '>'])), ('var', vs[0]),
                 ('bin', draw(st.sampled_from(['+', '-'])), ('var', vs[1]), ('const', draw(st.sampled_from([0.0, 1.0, 2.5])))))
    c['formula'], c['vars'] = f, vs
    k0s = draw(st.lists(st.sampled_from([0, 1, 2, 3, 5, 8]), min_size=len(vs), max_size=len(vs), unique=True))
    c['signals'] = {v: draw(grid_signal(k0, max_samples=6, min_samples=2)) for v, k0 in zip(vs, k0s)}
    nmax = max(len(x) for x in c['signals'].values())
    ts = sorted(set(k for x in c['signals'].values() for k, _ in x))
    if c['schedule'] == 'common':
        c['cuts'] = sorted(set(draw(st.lists(st.sampled_from(ts), min_size=1, max_size=4))))
    elif c['schedule'] == 'single':
        c['cuts'] = ts
    else:
        c['masks'] = {v: draw(st.lists(st.integers(0, 1), min_size=nmax, max_size=nmax)) for v in vs}
    c['staggered'] = True
    return c


def batches_of(case, sig_t, q):
    kind = case.get('schedule', 'common')
    if kind == 'whole':
        return [sig_t]
    if kind in ('common', 'single'):
        return split_common(sig_t, [float(k * q) for k in case.get('cuts', [])])
    if kind == 'sequential':
        # one variable after the other: the whole signal of a variable (in pieces of `piece` samples) before the next one
        out = []
        for v in case['order']:
            if v not in sig_t:
                continue
            xs = sig_t[v]
            for i in range(0, len(xs), case['piece']):
                out.append({u: (xs[i:i + case['piece']] if u == v else []) for u in sig_t})
        return out
    return split_independent(sig_t, case.get('masks', {}))


def check(case):
    f = from_json(case['formula'])
    vs = list(case['vars'])
    q = case_q(case)
    sig = norm_signals(case)
    used = F.fvars(f)
    pastified = case.get('pastified', False)
    labels = ['schedule:' + case.get('schedule', 'common'), 'pastified' if pastified else 'past'] + feature_labels(f)
    if not used:
        return DISCARD('no-variable', labels)
    sig = {v: sig[v] for v in vs if v in used}
    feed = list(sig)
    h = F.horizon(f)
    if h is None:
        return DISCARD('unbounded', labels)
    if sig and min(s[0][0] for s in sig.values()) > 0:
        labels.append('shifted')
        # constants are signals of their own, defined from time 0: with t0 > 0 they only stand next to a variable in arithmetic / predicates
        for x in F.subterms(f):
            arith = (x[0] == 'pred') or (x[0] == 'bin' and x[1] in F.BIN_ARITH) or (x[0] == 'un' and x[1] in F.UN_ARITH)
            if (x[0] in ('pred', 'bin', 'un', 'tun', 'tbin') and not F.fvars(x)) or (not arith and any(c[0] == 'const' for c in F.children(x))):
                return DISCARD('variable-free-subformula-with-t0>0', labels)
    ref_sig = sig
    if case.get('staggered'):
        # the variables start at different instants and the formula has no temporal operator: its value at t is a function
        # of the values at t, defined from the latest start on; the reference sees the signals from there
        if len(sig) < 2 or len(set(s[0][0] for s in sig.values())) < 2:
            return DISCARD('starts-together', labels)
        labels.append('signals-start-at-different-instants')
        kc = max(s[0][0] for s in sig.values())
        if any(s[-1][0] < kc for s in sig.values()):
            return DISCARD('no-common-domain', labels)
        ref_sig = {v: [(kc, [x for k, x in s if k <= kc][-1])] + [(k, x) for k, x in s if k > kc] for v, s in sig.items()}
    try:
        K0, Kend, ref = ct_cells(f, ref_sig)
    except Undefined:
        return DISCARD('undefined', labels)
    text = dense_text(f, q)
    sig_t = to_time(sig, q)
    batches = batches_of(case, sig_t, q)
    whole = [sig_t]
    omit = bool(case.get('omit_empty'))
    if omit:
        labels.append('variables-without-samples-left-out')
    refill = bool(case.get('refill'))
    if refill:
        labels.append('caller-refills-its-lists')
    edit = bool(case.get('edit_outputs'))
    if edit:
        labels.append('caller-edits-returned-samples')
    o = run_schedule(text, feed, batches, pastified, omit, refill, edit)
    o1 = run_schedule(text, feed, whole, pastified)
    desc = 'spec: %s%s\nsignals: %s\nschedule (%s%s): %s' % (text, '  [pastified, horizon %s]' % float(h * q) if pastified else '', sig_t,
                                                           case.get('schedule'), ', a variable without new samples is left out of the call' if omit else '', batches)
    if o1[0] != 'ok':
        return DISCARD('single-update-raises(C17):' + o1[1], labels)
    if o[0] != 'ok':
        return FAIL('chunked-raises:%s@%s' % (o[1], o[4].split(':')[-1]), desc + '\nchunked run raised %s: %s at %s\nsingle update returns %r' % (
            o[1], o[3], o[4], o1[1]), labels)
    out = concat(o[1])
    out1 = concat(o1[1])
    msg = check_shape(out)
    if msg:
        return FAIL('shape', desc + '\noutputs per update: %r\n%s' % (o[1], msg), labels)
    tol = needs_tolerance(f)
    shift = Fraction(h) * q if pastified else Fraction(0)
    # (ii) against the reference, where covered and inside the compared domain
    for t in covered_points(out, q):
        t0 = t - shift
        if t0 < K0 * q or t0 > Kend * q:
            continue
        k = int(math.floor(t0 / q))
        got = step_at(out, float(t))
        want = ref[k - K0]
        if got is None or not same(got, want, tol):
            off = run_ct_off(text, feed, sig_t)
            if not pastified and off[0] == 'ok' and off[1] and not same(step_at(off[1], float(t)) if step_at(off[1], float(t)) is not None else float('nan'), want, tol):
                return DISCARD('offline-differs-from-reference(C04)', labels)
            return FAIL('online-differs-from-reference:' + ('pastified' if pastified else F.op_of(f)),
                        desc + '\noutputs per update: %r\nat t=%g the online output is %r, reference %r (original time %g)' % (
                            o[1], float(t), got, want, float(t0)), labels)
    # (iii) against the single-update run
    if not check_shape(out1):
        both = set(covered_points(out, q)) & set(covered_points(out1, q))
        for t in sorted(both):
            a, b = step_at(out, float(t)), step_at(out1, float(t))
            if a is None or b is None or not same(a, b, tol):
                return FAIL('chunkings-differ', desc + '\nchunked: %r\nsingle update: %r\nat t=%g: %r vs %r' % (o[1], o1[1], float(t), a, b), labels)
    nontrivial = (len(batches) >= 2 or case.get('schedule') == 'whole') and bool(out) and any(s[0] in ('bin', 'pred', 'tun', 'tbin') or (s[0] == 'un' and s[1] in ('once', 'historically'))
                                                       for s in F.subterms(f))
    return PASS(nontrivial, labels)


KNOWN_LATE_START = 'operand-read-from-its-late-start:past-operator-over-bounded-operator-with-t0>0'


def check_shifted_bounded(case):
    """Signals that start at t0 > 0 under bounded past operators. The dense-time online once[a,b] / historically[a,b] / since[a,b]
    report nothing for [t0, t0+a) (the suite pins that: test_once_1_3, test_historically_1_2_1 of the online API tests), which the
    statement allows - but a past operator above such an operand takes the first instant it hears of for the start of the
    operand: the open finding KNOWN_LATE_START. Everything else is compared as in every lane."""
    from .C04 import past_over_bounded_future
    v = check(case)
    if v.status != 'fail' or not v.key.startswith('online-differs-from-reference'):
        return v
    f = from_json(case['formula'])
    k0 = min(s[0][0] for s in case['signals'].values())
    if k0 <= 0 or not past_over_bounded_future(f):
        return v
    c = dict(case)
    c['signals'] = {x: [[k - k0, y] for k, y in s] for x, s in case['signals'].items()}
    if 'cuts' in c:
        c['cuts'] = [k - k0 for k in c['cuts']]
    try:
        if check(c).status != 'pass':
            return v
    except Exception:  # noqa
        return v
    return FAIL(KNOWN_LATE_START, v.detail + '\n(the same case with all time stamps moved to start at 0 agrees with the reference: the past operator above the bounded '
                'operator reads its operand from t0 + a on, where the semantics has -inf / +inf on [t0, t0 + a))', v.labels + ['late-start'])


def check_main(case):
    """Main lanes: the known class is excluded by construction; a case of the class that slips in is discarded."""
    v = check(case)
    return v


def classify(case):
    f = from_json(case['formula'])
    q = case_q(case)
    sig = {v: s for v, s in norm_signals(case).items() if v in F.fvars(f)}
    if not sig:
        return False
    nb = len(batches_of(case, to_time(sig, q), q))
    return in_known_class(f, nb, case.get('pastified', False))


def check_finding(case):
    """Lanes that concentrate on bounded operators fed in several updates (an open finding until the two fixes
    9dbd380 / fa810ae in /repo; since then ordinary lanes: failures keep their own keys)."""
    if not classify(case):
        return PASS(False, ['not-bounded-and-chunked'])
    return check(case)


def exhaustive(tier, seed, shard=0, nshards=1, bounded=False):
    """All 2^(n-1) schedules of one-variable signals with n <= 5 samples for a fixed family of formulas."""
    stats = Stats()
    fails = {}
    x = ('var', 'x')
    p = ('pred', '>=', x, ('const', 1.0))
    forms = [x, ('un', 'once', x), ('un', 'historically', p), ('tun', 'once', 0, 2, x), ('tun', 'once', 1, 3, x),
             ('tun', 'historically', 0, 2, x), ('tun', 'historically', 2, 2, p), ('bin', 'since', p, ('pred', '<=', x, ('const', 3.0))),
             ('tbin', 'since', 0, 2, x, p), ('bin', 'and', ('tun', 'once', 0, 1, x), ('un', 'not', p)),
             ('tun', 'once', 0, 2, ('tun', 'historically', 0, 1, x)), ('bin', '+', x, ('un', 'once', x))]
    shapes = [[(0, 1.0), (1, 3.0), (3, -2.0)], [(0, 2.0), (2, 0.5), (3, 4.0), (6, 1.0)], [(0, -1.0), (1, 2.0), (2, 2.0), (4, -3.0), (5, 0.0)],
              [(0, 0.0), (4, 5.0)], [(0, 3.0), (1, 1.0), (2, 4.0), (3, 1.5), (4, 5.0)]]
    idx = 0
    for f in forms:
        for shape in shapes:
            n = len(shape)
            for mask in itertools.product([0, 1], repeat=n - 1):
                idx += 1
                if idx % nshards != shard:
                    continue
                case = {'formula': f, 'vars': ['x'], 'signals': {'x': [list(s) for s in shape]}, 'q': [1, 4], 'pastified': False,
                        'schedule': 'independent', 'masks': {'x': list(mask) + [0]}}
                is_bounded = any(s[0] in ('tun', 'tbin') for s in F.subterms(f))
                if is_bounded != bounded:
                    continue
                v = check_finding(case) if bounded else check(case)
                stats.add(case, v, len(stats.samples) < 2)
                if v.status == 'fail' and v.key not in fails:
                    fails[v.key] = {'lane': 'exhaustive', 'key': v.key, 'detail': v.detail, 'case': jsonable(case), 'shrink_evals': 0}
    return stats.export(), list(fails.values())


def candidates(case):
    for c in ct_candidates(case):
        c = dict(c)
        ts = set(k for s in c['signals'].values() for k, _ in s)
        if 'cuts' in c:
            c['cuts'] = [k for k in c['cuts'] if k in ts] if c.get('schedule') == 'common' else sorted(ts)
        yield c
    if case.get('schedule') == 'common' and len(case.get('cuts', [])) > 1:
        for i in range(len(case['cuts'])):
            c = dict(case)
            c['cuts'] = case['cuts'][:i] + case['cuts'][i + 1:]
            yield c
    if case.get('schedule') == 'independent':
        for v, m in case['masks'].items():
            for i, b in enumerate(m):
                if b:
                    c = dict(case)
                    c['masks'] = dict(case['masks'])
                    c['masks'][v] = m[:i] + [0] + m[i + 1:]
                    yield c


def exhaustive_bounded(tier, seed, shard=0, nshards=1):
    return exhaustive(tier, seed, shard, nshards, bounded=True)


def long_cases(tier):
    """Longer signals (up to 14 samples per variable): ten and more update() calls on one monitor."""
    from hypothesis import strategies as st2

    @st2.composite
    def mk(draw):
        prof = DENSE_PAST.copy(max_bound=6, max_depth=3)
        c = draw(ct_cases(prof, tier, max_samples=14, min_samples=8))
        c['pastified'] = False
        ts = sorted(set(k for s in c['signals'].values() for k, _ in s))
        c['schedule'] = draw(st2.sampled_from(['single', 'common', 'independent']))
        if c['schedule'] == 'single':
            c['cuts'] = ts
        elif c['schedule'] == 'common':
            c['cuts'] = sorted(set(draw(st2.lists(st2.sampled_from(ts), min_size=3, max_size=10))))
        else:
            nmax = max(len(s) for s in c['signals'].values())
            c['masks'] = {v: draw(st2.lists(st2.integers(0, 1), min_size=nmax, max_size=nmax)) for v in c['vars']}
            c['omit_empty'] = draw(st2.booleans())
        c['refill'] = draw(st2.integers(0, 2)) == 0
        return c
    return mk()


def skewed_cases(tier):
    """34-70 samples per variable and a delivery in which one variable runs far ahead of the others (the whole signal of one
    variable before the first sample of the next, or one variable in a single update and the others in pieces): operators
    with two operands have to keep a long backlog of the operand that is ahead."""
    from hypothesis import strategies as st2

    @st2.composite
    def mk(draw):
        prof = DENSE_PAST.copy(max_bound=6, max_depth=2, nvars=2)
        f, vs = draw(F.formulas(prof))
        vs = list(vs)
        if len(vs) < 2:
            vs = vs + [v for v in F.VAR_POOL if v not in vs][:1]
        if draw(st2.integers(0, 2)) > 0:
            # make sure two different variables meet in one node
            cmp_ = ('pred', draw(st2.sampled_from(['>=', '<=', '>', '<'])), ('var', vs[0]), ('var', vs[1]))
            g = draw(st2.sampled_from([cmp_, ('un', 'once', cmp_), ('un', 'historically', cmp_), ('tun', 'once', 0, 3, cmp_)]))
            f = draw(st2.sampled_from([g, ('bin', 'and', f, g), ('bin', 'or', g, f), ('bin', 'since', f, g)]))
        q = draw(st2.sampled_from(QUANTA[tier]))
        sig = {}
        for v in vs:
            n = draw(st2.integers(34, 70))
            vals = draw(st2.lists(st2.sampled_from([0.0, 1.0, -1.0, 2.0, 5.0, -3.0, 0.5]), min_size=n, max_size=n))
            gaps = draw(st2.lists(st2.sampled_from([1, 1, 1, 2, 3]), min_size=n, max_size=n))
            k = 0
            s = []
            for x, g_ in zip(vals, gaps):
                s.append([k, x])
                k += g_
            sig[v] = s
        c = {'formula': f, 'vars': vs, 'signals': sig, 'q': [q.numerator, q.denominator], 'pastified': False}
        if draw(st2.booleans()):
            c['schedule'] = 'sequential'
            c['order'] = list(draw(st2.permutations(vs)))
            c['piece'] = draw(st2.sampled_from([1000, 1000, 10, 7, 25]))
        else:
            c['schedule'] = 'independent'
            ahead = draw(st2.sampled_from(vs))
            c['masks'] = {v: ([0] * 70 if v == ahead else draw(st2.lists(st2.sampled_from([0, 0, 0, 0, 0, 1]), min_size=70, max_size=70))) for v in vs}
        c['omit_empty'] = draw(st2.booleans())
        c['refill'] = draw(st2.booleans())
        return c
    return mk()


def near_twin_cases(tier):
    """g JOIN g' with g' one label away from g (operators and cached values are keyed by printed name)."""
    from hypothesis import strategies as st2
    from ..common import near_twin

    @st2.composite
    def mk(draw):
        c = draw(cases(tier, False))
        g = from_json(c['formula'])
        g2 = draw(near_twin(g))
        if g2 is None or g2 == g:
            g2 = ('un', 'not', g)
        join = draw(st2.sampled_from(['and', 'or', 'implies', 'since']))
        c['formula'] = ('bin', join, g, g2) if draw(st2.booleans()) else ('bin', join, g2, g)
        return c
    return mk()


def far_twin_cases(tier):
    """Two bounded past operators over the same operand whose bounds are of the order of 10^6 .. 10^7 time units and differ
    only in the seventh or a later significant digit (operators and cached values of the online monitor are keyed by printed
    name); a short signal with samples around time 0 and around the bound."""
    from hypothesis import strategies as st2

    @st2.composite
    def mk(draw):
        B = draw(st2.sampled_from([4000000, 8000000, 40000004, 4194304, 12345678 * 4, 400000000]))     # cells of 1/4
        d1, d2 = draw(st2.sampled_from([(0, 1), (1, 0), (0, 4), (4, 5), (2, 3), (0, 0), (8, 4)]))
        a_kind = draw(st2.sampled_from(['zero', 'zero', 'small', 'far', 'far_twin']))
        a1, a2 = {'zero': (0, 0), 'small': (1, 4), 'far': (B - 8, B - 8), 'far_twin': (B - 8, B - 7)}[a_kind]
        ops = draw(st2.sampled_from([('once', 'once'), ('historically', 'historically'), ('once', 'historically'), ('once', 'once')]))
        g = draw(st2.sampled_from([('var', 'x'), ('pred', '>=', ('var', 'x'), ('const', 1.0))]))
        k = 0
        sig = []
        for _ in range(draw(st2.integers(1, 4))):
            sig.append([k, draw(st2.sampled_from([0.0, 1.0, -1.0, 2.0, 5.0, -3.0]))])
            k += draw(st2.sampled_from([1, 2, 4, 7]))
        k = B - draw(st2.sampled_from([9, 6, 3, 1, 0]))
        for _ in range(draw(st2.integers(4, 12))):
            sig.append([k, draw(st2.sampled_from([0.0, 1.0, -1.0, 2.0, 5.0, -3.0]))])
            k += draw(st2.sampled_from([1, 1, 2, 3, 4]))
        n = len(sig)
        return {'ops': list(ops), 'b': [B + d1, B + d2], 'a': [a1, a2], 'g': g, 'join': draw(st2.sampled_from(['and', 'or', 'implies'])),
                'neg': draw(st2.booleans()), 'signal': sig,
                'cuts': sorted(set(draw(st2.lists(st2.integers(0, n - 1), min_size=0, max_size=5)))) if draw(st2.booleans()) else list(range(n))}
    return mk()


def check_far_twins(case):
    q = Fraction(1, 4)
    g = from_json(case['g'])
    l = ('tun', case['ops'][0], case['a'][0], case['b'][0], g)
    r = ('tun', case['ops'][1], case['a'][1], case['b'][1], g)
    if case['neg']:
        r = ('un', 'not', r)
    f = ('bin', case['join'], l, r)
    labels = ['far-twins', 'join:' + case['join']]
    text = dense_text(f, q)
    sig_t = {'x': [[float(Fraction(k) * q), float(x)] for k, x in case['signal']]}
    cuts = [sig_t['x'][i][0] for i in case['cuts'] if i < len(sig_t['x'])]
    batches = split_common(sig_t, cuts)
    off = run_ct_off(text, ['x'], sig_t)
    on = run_schedule(text, ['x'], batches, False)
    desc = 'spec: %s\nsignal: %s\nschedule: %s' % (text, sig_t, batches)
    if off[0] != 'ok':
        return DISCARD('offline-raises(C17):' + off[1], labels)
    if on[0] != 'ok':
        return FAIL('far-twins-online-raises:%s' % on[1], desc + '\nonline run raised %s: %s at %s\noffline returns %r' % (on[1], on[3], on[4], off[1]), labels)
    out = concat(on[1])
    msg = check_shape(out) or check_shape(off[1])
    if msg:
        return FAIL('shape', desc + '\n' + msg, labels)
    if not out:
        return PASS(False, labels + ['empty-output'])
    lo, hi = out[0][0], out[-1][0]
    stamps = sorted(set([p[0] for p in out] + [p[0] for p in off[1]]))
    pts = []
    for i, t in enumerate(stamps):
        pts.append(t)
        if i + 1 < len(stamps):
            pts.append((t + stamps[i + 1]) / 2.0)
    compared = 0
    for t in pts:
        if t < lo or t > hi or t > sig_t['x'][-1][0]:
            continue
        a, b = step_at(out, t), step_at(off[1], t)
        compared += 1
        if a is None or b is None or not same(a, b, False):
            return FAIL('far-twins:online-differs-from-offline', desc + '\nonline (concatenated): %r\noffline: %r\nat t=%r: online %r, offline %r' % (
                out, off[1], t, a, b), labels)
    return PASS(compared >= 3 and case['b'][0] != case['b'][1], labels)


@st.composite
def bigint_time_cases(draw, tier):
    """Untimed past formulas on signals whose time stamps are Python integers of the order of 1.7e18, a few units apart (far below
    the spacing of doubles there), delivered in one update or cut at one of the stamps."""
    f, vs = draw(F.formulas(DENSE_PAST.copy(tun=(), tbin=(), max_depth=3)))
    t0 = draw(st.sampled_from([1700000000000000000, 2 ** 53 + 1, 2 ** 62 + 12345, 1700000000123456789]))
    sig = {}
    for v in vs:
        n = draw(st.sampled_from([2, 3, 4, 5, 6, 8]))
        k, xs = t0, []
        for _ in range(n):
            xs.append([k, draw(F.values())])
            k += draw(st.sampled_from([1, 2, 3, 5, 7]))
        sig[v] = xs
    return {'formula': f, 'vars': vs, 'signals': sig, 'cut': draw(st.sampled_from([None, 1, 2, 3, 5, 8, 13]))}


def check_bigint_time(case):
    """Integer time stamps beyond 2**53 through the online monitor: what it reports, read at the integer instants it covers,
    equals the grid reference (cells of one time unit), in one update and in two; instants are compared as integers."""
    f = from_json(case['formula'])
    used = F.fvars(f)
    labels = feature_labels(f) + ['integer-time-stamps>2^53', 'updates:%d' % (1 if case.get('cut') is None else 2)]
    if not used:
        return DISCARD('no-variable', labels)
    sig = {v: [(int(k), float(x)) for k, x in case['signals'][v]] for v in case['vars'] if v in used}
    for x in F.subterms(f):
        arith = (x[0] == 'pred') or (x[0] == 'bin' and x[1] in F.BIN_ARITH) or (x[0] == 'un' and x[1] in F.UN_ARITH)
        if (x[0] in ('pred', 'bin', 'un') and not F.fvars(x)) or (not arith and any(c[0] == 'const' for c in F.children(x))):
            return DISCARD('variable-free-subformula-with-t0>0', labels)
    try:
        K0, Kend, ref = ct_cells(f, sig)
    except Undefined:
        return DISCARD('undefined', labels)
    text = 'out = ' + F.show(f)
    sig_t = {v: [[k, x] for k, x in s] for v, s in sig.items()}
    if case.get('cut') is None:
        batches = [sig_t]
    else:
        c = K0 + case['cut']
        batches = [b for b in ({v: [p for p in s if p[0] <= c] for v, s in sig_t.items()}, {v: [p for p in s if p[0] > c] for v, s in sig_t.items()}) if any(b.values())]
    o = run_schedule(text, list(sig), batches, False)
    off = run_ct_off(text, list(sig), sig_t)
    desc = 'spec: %s\nsignals (integer time stamps): %s\nupdates: %s' % (text, sig_t, batches)
    if off[0] != 'ok':
        return DISCARD('offline-raises(C04)', labels)
    if o[0] != 'ok':
        return FAIL('chunked-raises:%s@%s' % (o[1], o[4].split(':')[-1]), desc + '\nonline run raised %s: %s at %s\noffline returns %r' % (o[1], o[3], o[4], off[1]), labels)
    out = concat(o[1])
    msg = check_shape(out)
    if msg:
        return FAIL('shape', desc + '\noutputs per update: %r\n%s' % (o[1], msg), labels)
    tol = needs_tolerance(f)
    if out:
        for k in range(max(K0, int(out[0][0])), min(Kend, int(out[-1][0])) + 1):
            got = step_at(out, k)
            if got is None or not same(got, ref[k - K0], tol):
                if not same(step_at(off[1], k) if step_at(off[1], k) is not None else float('nan'), ref[k - K0], tol):
                    return DISCARD('offline-differs-from-reference(C04)', labels)
                return FAIL('online-differs-from-reference:integer-time-stamps', desc + '\noutputs per update: %r\nat t = t0 + %d the online output is %r, reference %r' % (
                    o[1], k - K0, got, ref[k - K0]), labels)
    return PASS(bool(out) and (F.n_temporal(f) >= 1 or len(sig) >= 2), labels)


LANES = [
    Lane('bigint_time', bigint_time_cases, check_bigint_time, 600, 6000, None),
    Lane('far_twins', far_twin_cases, check_far_twins, 1000, 10000, None),
    Lane('near_twins', near_twin_cases, check, 1200, 15000, candidates),
    Lane('long_chunked', long_cases, check, 600, 8000, candidates),
    Lane('skewed', skewed_cases, check, 800, 10000, candidates),
    Lane('staggered', staggered_cases, check, 1000, 10000, candidates),
    Lane('shifted_bounded', lambda tier: cases(tier, False, bounded=True, shifted=True), check_shifted_bounded, 1000, 10000, candidates),
    Lane('shifted_unbounded', lambda tier: cases(tier, False, bounded=False, shifted=True), check, 1000, 10000, candidates),
    Lane('unbounded_chunked', lambda tier: cases(tier, False, bounded=False), check, 3000, 40000, candidates),
    Lane('bounded_whole', lambda tier: cases(tier, False, chunked=False), check, 1500, 20000, candidates),
    Lane('pastified_whole', lambda tier: cases(tier, True, chunked=False), check, 1000, 15000, candidates),
    Lane('exhaustive', None, check, 1, 1, None, custom=exhaustive, shards=8),
    # bounded operators fed in several updates
    Lane('bounded_chunked', lambda tier: cases(tier, False), check_finding, 800, 8000, candidates),
    Lane('pastified_chunked', lambda tier: cases(tier, True), check_finding, 500, 5000, candidates),
    Lane('exhaustive_bounded', None, check_finding, 1, 1, None, custom=exhaustive_bounded, shards=4),
]
