"""Adapters to the rtamt monitors.  Every call builds fresh specification objects.

Outcome convention:  ('ok', value)  or  ('exc', type_name, is_rtamt_exception, message, site)
where site is "<file under rtamt/>:<function>" of the innermost rtamt frame.
"""
import io
import logging
import os
import sys
import traceback

import rtamt
from rtamt.exception.exception import RTAMTException

logging.disable(logging.CRITICAL)

REPO = os.environ.get('VERIF_REPO', '/repo')
_RT = os.path.dirname(os.path.abspath(rtamt.__file__))

SEMANTICS = {
    None: rtamt.Semantics.STANDARD,
    'standard': rtamt.Semantics.STANDARD,
    'output_robustness': rtamt.Semantics.OUTPUT_ROBUSTNESS,
    'input_robustness': rtamt.Semantics.INPUT_ROBUSTNESS,
    'output_vacuity': rtamt.Semantics.OUTPUT_VACUITY,
    'input_vacuity': rtamt.Semantics.INPUT_VACUITY,
}


def assert_repo():
    want = os.path.realpath(REPO)
    got = os.path.realpath(_RT)
    if not got.startswith(want + os.sep):
        raise SystemExit('harness error: rtamt imported from %s, expected under %s' % (got, want))


def exc_outcome(e):
    tb = traceback.extract_tb(e.__traceback__)
    site = '?'
    for fr in tb:
        fn = os.path.abspath(fr.filename)
        if fn.startswith(_RT + os.sep):
            site = '%s:%s' % (os.path.relpath(fn, _RT), fr.name)
    return ('exc', type(e).__name__, isinstance(e, RTAMTException), str(e)[:200], site)


class Captured(object):
    """Capture sys.stderr (ANTLR console listener) during a block."""

    def __enter__(self):
        self.old = sys.stderr
        self.buf = io.StringIO()
        sys.stderr = self.buf
        return self

    def __exit__(self, *a):
        sys.stderr = self.old
        self.text = self.buf.getvalue()
        return False


# names of the specification classes instantiated since the runner last cleared the list (appended to failure reports)
CLASS_LOG = []


def combined_class(text):
    """One specification in three is built with the combined class of the README (StlDiscreteTimeSpecification /
    StlDenseTimeSpecification, offline and online in one object) instead of the dedicated offline / online class: a pure
    function of the specification text, so that a replay makes the same choice."""
    import zlib
    return zlib.crc32((text or '').encode('utf-8')) % 3 == 0


def make_spec(kind, semantics=None, text=None):
    """kind: 'dt' (offline+online discrete), 'dt_off', 'dt_on', 'ct', 'ct_off', 'ct_on'."""
    sem = SEMANTICS[semantics]
    if sem == rtamt.Semantics.STANDARD and text is not None and combined_class(text):
        kind = kind[:2]
    CLASS_LOG.append({'dt': 'StlDiscreteTimeSpecification', 'ct': 'StlDenseTimeSpecification', 'dt_off': 'StlDiscreteTimeOfflineSpecification',
                      'dt_on': 'StlDiscreteTimeOnlineSpecification', 'ct_off': 'StlDenseTimeOfflineSpecification',
                      'ct_on': 'StlDenseTimeOnlineSpecification'}.get(kind, kind))
    del CLASS_LOG[:-8]
    if kind == 'dt':
        return rtamt.StlDiscreteTimeSpecification(semantics=sem)
    if kind == 'ct':
        return rtamt.StlDenseTimeSpecification(semantics=sem)
    if sem != rtamt.Semantics.STANDARD:
        raise ValueError('IA semantics only through the combined factories')
    if kind == 'dt_off':
        return rtamt.StlDiscreteTimeOfflineSpecification()
    if kind == 'dt_on':
        return rtamt.StlDiscreteTimeOnlineSpecification()
    if kind == 'ct_off':
        return rtamt.StlDenseTimeOfflineSpecification()
    if kind == 'ct_on':
        return rtamt.StlDenseTimeOnlineSpecification()
    raise ValueError(kind)


def build(kind, text, variables, semantics=None, io_types=None, consts=None, subspecs=(),
          unit=None, period=None, pastify=False, parse=True, declare=True, dedicated=False):
    """Construct, configure and parse a specification object.
    consts: list of (name, type, value-string); subspecs: list of texts for add_sub_spec;
    period: (value, unit[, tolerance])."""
    spec = make_spec(kind, semantics, None if dedicated else text)       # explain() exists on the dedicated offline class only
    if declare:
        for v in variables:
            spec.declare_var(v, 'float')
    if io_types:
        for v, t in io_types.items():
            spec.set_var_io_type(v, t)
    for c in consts or ():
        spec.declare_const(c[0], c[1], c[2])
    for s in subspecs:
        spec.add_sub_spec(s)
    if unit is not None:
        spec.unit = unit
    if period is not None:
        spec.set_sampling_period(*period)       # (value, unit[, tolerance]); (value,) leaves the unit to its default, seconds
    spec.spec = text
    if parse:
        spec.parse()
        if parse is not True and parse >= 2:
            spec.parse()                # parsing again replaces the first result
        for _ in range(int(pastify)):        # True: once; 2: pastify() is called twice (the second call finds no future operator)
            spec.pastify()
    return spec


def dt_dataset(trace, time=None):
    n = len(next(iter(trace.values()))) if trace else 0
    ds = {'time': list(time) if time is not None else [float(i) for i in range(n)]}
    for k, v in trace.items():
        ds[k] = list(v)
    return ds


def run_dt_off(text, variables, trace, time=None, kind='dt_off', **cfg):
    """Offline discrete evaluation: ('ok', [[t, v], ...]) or an exception outcome."""
    try:
        spec = build(kind, text, variables, **cfg)
        out = spec.evaluate(dt_dataset(trace, time))
        return ('ok', out)
    except RecursionError:
        raise
    except Exception as e:  # noqa
        return exc_outcome(e)


def run_dt_on(text, variables, trace, time=None, kind='dt_on', feed=None, **cfg):
    """Online discrete: one update per sample.  ('ok', [v0, v1, ...])."""
    try:
        spec = build(kind, text, variables, **cfg)
        n = len(next(iter(trace.values())))
        outs = []
        names = feed if feed is not None else list(trace.keys())
        # the container that carries the (name, value) pairs is a function of the text: list of tuples, list of lists,
        # tuple of tuples or a one-shot iterator (zip)
        import zlib
        shape = (zlib.crc32((text or '').encode('utf-8')) >> 8) % 4
        for i in range(n):
            t = time[i] if time is not None else i
            if shape == 0:
                ds = [(v, trace[v][i]) for v in names]
            elif shape == 1:
                ds = [[v, trace[v][i]] for v in names]
            elif shape == 2:
                ds = tuple((v, trace[v][i]) for v in names)
            else:
                ds = zip(list(names), [trace[v][i] for v in names])
            outs.append(spec.update(t, ds))
        return ('ok', outs)
    except RecursionError:
        raise
    except Exception as e:  # noqa
        return exc_outcome(e)


def ct_args(signals, order=None):
    names = order if order is not None else list(signals.keys())
    return [[v, [list(s) for s in signals[v]]] for v in names]


def run_ct_off(text, variables, signals, kind='ct_off', **cfg):
    try:
        spec = build(kind, text, variables, **cfg)
        out = spec.evaluate(*ct_args(signals))
        return ('ok', out)
    except RecursionError:
        raise
    except Exception as e:  # noqa
        return exc_outcome(e)


def run_ct_on(text, variables, batches, kind='ct_on', **cfg):
    """batches: list of dict var -> sample list (one dict per update call)."""
    try:
        spec = build(kind, text, variables, **cfg)
        outs = []
        for b in batches:
            outs.append(spec.update(*ct_args(b)))
        return ('ok', outs)
    except RecursionError:
        raise
    except Exception as e:  # noqa
        return exc_outcome(e)
