"""Shared case shapes, strategies and shrink candidates for discrete-time properties."""
from hypothesis import strategies as st

from . import formula as F
from .formula import from_json


@st.composite
def dt_cases(draw, profile, max_n=12, fin=False, extra=None, min_n=1):
    f, vs = draw(F.formulas(profile, fin=fin))
    n = draw(F.trace_lengths(max_n, min_n))
    tr = draw(F.traces(vs, n=n, var_bound=profile.var_bound))
    case = {'formula': f, 'vars': vs, 'trace': tr}
    if extra:
        for k, s in extra.items():
            case[k] = draw(s)
    return case


def formula_candidates(f):
    """Smaller formulas: a child in place of the node, smaller bounds, simplified children."""
    f = from_json(f)
    kids = F.children(f)
    for c in kids:
        yield c
    if f[0] in ('tun', 'tbin'):
        a, b = f[2], f[3]
        for (a2, b2) in ((0, 0), (a, a), (0, b), (a // 2, b // 2), (a, b - 1), (a - 1, b) if a > 0 else (a, b)):
            if 0 <= a2 <= b2 and (a2, b2) != (a, b):
                yield f[:2] + (a2, b2) + f[4:]
    if f[0] == 'const' and f[1] not in (0.0, 1.0):
        yield ('const', 1.0)
    for i, c in enumerate(kids):
        for c2 in formula_candidates(c):
            k2 = list(kids)
            k2[i] = c2
            yield F.rebuild(f, k2)


def std_candidates(case):
    """Shrink candidates for {'formula','vars','trace', ...} cases; other keys are kept."""
    f = from_json(case['formula'])
    tr = case['trace']
    n = len(next(iter(tr.values()))) if tr else 0
    seen = set()
    for f2 in formula_candidates(f):
        if f2 in seen or f2[0] in ('const',):
            continue
        seen.add(f2)
        used = F.fvars(f2)
        if not used:
            continue
        c = dict(case)
        c['formula'] = f2
        c['vars'] = [v for v in case['vars'] if v in used]
        c['trace'] = {v: tr[v] for v in c['vars']}
        yield c
    if n > 1:
        for cut in ('last', 'first'):
            c = dict(case)
            c['trace'] = {v: (xs[:-1] if cut == 'last' else xs[1:]) for v, xs in tr.items()}
            if 'time' in case and case['time'] is not None:
                c['time'] = case['time'][:-1] if cut == 'last' else case['time'][1:]
            yield c
    for v, xs in tr.items():
        for i, x in enumerate(xs):
            for repl in (0.0, 1.0):
                if x != repl and (x == int(x) or repl == 0.0) and abs(x) > abs(repl):
                    c = dict(case)
                    c['trace'] = dict(tr)
                    c['trace'][v] = xs[:i] + [repl] + xs[i + 1:]
                    yield c
                    break


@st.composite
def near_twin(draw, g):
    """A copy of g that differs from it in exactly one label (operator, bound, constant, variable): two nodes whose
    printed forms are almost the same.  Returns None if nothing can be changed."""
    g = from_json(g)
    nodes = list(F.subterms(g))
    idx = draw(st.integers(0, len(nodes) - 1))
    for off in range(len(nodes)):
        s = nodes[(idx + off) % len(nodes)]
        k = s[0]
        t = None
        if k == 'pred':
            t = (k, draw(st.sampled_from([o for o in F.PREDS if o != s[1]]))) + s[2:]
        elif k == 'const':
            if draw(st.booleans()):
                # a constant that agrees with the original in its first seven (or thirteen, or all but the last binary) digits
                t = ('const', s[1] + max(abs(s[1]), 1.0) * 2.0 ** draw(st.sampled_from([-24, -24, -44, -51])))
            else:
                t = ('const', draw(st.sampled_from([c for c in (0.0, 1.0, 2.0, 0.5, 3.0) if c != s[1]])))
        elif k == 'tun':
            alt = {'once': 'historically', 'historically': 'once', 'eventually': 'always', 'always': 'eventually'}
            choice = draw(st.integers(0, 2))
            if choice == 0:
                t = (k, alt[s[1]]) + s[2:]
            elif choice == 1:
                t = (k, s[1], s[2], s[3] + 1, s[4])
            else:
                t = (k, s[1], max(0, s[2] - 1), s[3], s[4]) if s[2] > 0 else (k, s[1], s[2] + (1 if s[2] < s[3] else 0), s[3] + (0 if s[2] < s[3] else 1), s[4])
        elif k == 'tbin' and s[1] in ('since', 'until'):
            t = (k, s[1], s[2], s[3] + 1) + s[4:]
        elif k == 'un':
            alt = {'once': 'historically', 'historically': 'once', 'eventually': 'always', 'always': 'eventually', 'prev': 's_prev',
                   's_prev': 'prev', 'next': 's_next', 's_next': 'next', 'rise': 'fall', 'fall': 'rise', 'abs': 'neg', 'neg': 'abs'}
            if s[1] in alt:
                t = (k, alt[s[1]], s[2])
        elif k == 'bin':
            alt = {'and': 'or', 'or': 'and', 'implies': 'or', 'iff': 'xor', 'xor': 'iff', '+': '-', '-': '+', '*': '+'}
            if s[1] in alt:
                t = (k, alt[s[1]], s[2], s[3])
        if t is not None and t != s:
            def repl(h, done=[False]):
                if h is s and not done[0]:
                    done[0] = True
                    return t
                kids = F.children(h)
                return F.rebuild(h, [repl(c) for c in kids]) if kids else h
            return repl(g)
    return None


def fmt_vals(xs):
    return '[' + ', '.join('%g' % x if isinstance(x, (int, float)) else str(x) for x in xs) + ']'


def feature_labels(f, n=None):
    """Labels describing a case for the distribution report."""
    ops = F.ops(f)
    labs = set('op:' + o for o in ops if o not in ('var', 'const'))
    labs.add('depth:%d' % min(F.depth(f), 7))
    nt = F.n_temporal(f)
    labs.add('temporal:%s' % (nt if nt < 4 else '4+'))
    if n is not None:
        labs.add('n:%s' % (n if n <= 4 else ('5-8' if n <= 8 else '9+')))
        mb = F.max_bound(f)
        if mb and n <= mb:
            labs.add('n<=bound')
    subs = [s for s in F.subterms(f) if s[0] not in ('var', 'const')]
    if len(subs) != len(set(subs)):
        labs.add('dup-subformula')
    return sorted(labs)


# --------------------------------------------------------------------------
# giant windows: sizes at which an implementation may switch to another algorithm
# --------------------------------------------------------------------------

GIANT_WIDTHS = (200, 255, 256, 257, 300, 400, 511, 512, 513, 640, 1000, 1023, 1024, 1025, 1100)


@st.composite
def spiky_trace(draw, variables, n):
    """Mostly flat signals (long runs of 0 / 1) with a few isolated extreme samples: a window that is one sample too long,
    too short or shifted includes or misses a spike at exactly one position, whatever the width of the window."""
    tr = {}
    for v in variables:
        xs = []
        while len(xs) < n:
            xs += [draw(st.sampled_from([0.0, 1.0, 0.0, -1.0]))] * draw(st.sampled_from([1, 3, 20, 90, 250, 600]))
        xs = xs[:n]
        for _ in range(draw(st.integers(1, 5))):
            i = draw(st.integers(0, n - 1))
            xs[i] = float(draw(st.sampled_from([-1, 1])) * draw(st.integers(10, 40)))
        # spikes near both ends of the trace (the first and last windows are the incomplete ones)
        if n > 4 and draw(st.booleans()):
            xs[draw(st.integers(0, min(3, n - 1)))] = float(draw(st.integers(-60, -41)))
        if n > 4 and draw(st.booleans()):
            xs[n - 1 - draw(st.integers(0, min(3, n - 1)))] = float(draw(st.integers(41, 60)))
        tr[v] = xs
    return tr


@st.composite
def giant_cases(draw, ops, tbin_ops=(), lengths='any', max_width=1100):
    """One bounded operator whose window is 200 .. 1100 samples wide (around 256, 512 and 1024 in particular), lower bound
    0 or not, over a simple operand; optionally negated, combined with its dual or nested under a narrow operator.
    lengths: 'any' (also traces not longer than the lower / upper bound) or 'long' (trace longer than the upper bound)."""
    vs = ['x', 'y']
    x = ('var', draw(st.sampled_from(vs)))
    g = draw(st.sampled_from([x, x, ('pred', '>=', x, ('const', 1.0)), ('un', 'not', ('pred', '<', x, ('var', 'y'))), ('un', 'abs', x),
                              ('pred', '<=', x, ('const', 3.0))]))
    width = draw(st.sampled_from([w for w in GIANT_WIDTHS if w <= max_width]))
    a = draw(st.sampled_from([0, 0, 1, 3, 17, 100, 300]))
    b = a + width
    op = draw(st.sampled_from(list(ops)))
    if tbin_ops and draw(st.integers(0, 7)) == 0:
        # bounded since / until: rtamt itself needs seconds per case beyond a few hundred samples (cubic), so fewer and narrower
        op = draw(st.sampled_from(list(tbin_ops)))
        width = draw(st.sampled_from([140, 200, 257]))
        a = draw(st.sampled_from([0, 1, 17]))
        b = a + width
        other = ('pred', '>=', ('var', 'y'), ('const', 0.0)) if draw(st.booleans()) else ('var', 'y')
        f = ('tbin', op, a, b, g, other)
    else:
        f = ('tun', op, a, b, g)
    k = draw(st.integers(0, 5))
    dual = {'once': 'historically', 'historically': 'once', 'eventually': 'always', 'always': 'eventually'}
    reach = b
    if k == 1:
        f = ('un', 'not', f)
    elif k == 2 and f[0] == 'tun':
        f = ('bin', draw(st.sampled_from(['and', 'or', 'implies'])), f, ('tun', dual[op], a, b, ('un', 'not', g)))
    elif k == 4 and f[0] == 'tun':
        # a second operator of the same kind with another wide window over the other variable
        w2 = draw(st.sampled_from([w for w in GIANT_WIDTHS if w <= max_width and w != width][:8]))
        a2 = draw(st.sampled_from([0, 0, 1, 17]))
        y = ('var', [v for v in vs if v != x[1]][0])
        g2 = draw(st.sampled_from([y, ('pred', '>=', y, ('const', 1.0)), ('un', 'abs', y)]))
        f = ('bin', draw(st.sampled_from(['and', 'or', 'implies'])), f, ('tun', op, a2, a2 + w2, g2))
        reach = max(b, a2 + w2)
    elif k == 3 and f[0] == 'tun':
        # a narrow operator of the same direction above the wide one
        c = draw(st.integers(0, 3))
        d = c + draw(st.integers(0, 2))
        f = ('tun', op, c, d, f)
        reach = b + d
    h = reach
    if lengths == 'long':
        n = h + draw(st.sampled_from([1, 2, 3, 10, 50, 200, 500]))
    else:
        n = draw(st.sampled_from([1, 2, max(1, a), a + 1, a + 2, max(1, b - 1), b, b + 1, b + 2, b + 3, b + 10, b + 50, b + 200, b + 500, 2 * b + 5]))
    if f[0] == 'tbin' or (f[0] == 'un' and f[2][0] == 'tbin'):
        n = min(n, b + 60)
    tr = draw(spiky_trace(vs, n))
    return {'formula': f, 'vars': vs, 'trace': tr}


# --------------------------------------------------------------------------
# integer samples beyond 2**53 (time stamps in nanoseconds since the epoch, 64-bit counters)
# --------------------------------------------------------------------------

@st.composite
def bigint_cases(draw, past_only=False, dense=False):
    """Two integer-valued signals x <= y of the order of 1.7e18 (doubles are 256 apart there) whose difference is small; the
    formulas compare differences with small constants, so that every value the semantics defines is exact in integer
    arithmetic and depends on digits a conversion to float would lose."""
    vs = ['x', 'y']
    n = draw(st.integers(1, 8))
    t = draw(st.sampled_from([1700000000000000000, 2 ** 53 + 1, 2 ** 62 + 12345, 9007199254740993, 1700000000123456789]))
    xs = []
    for _ in range(n):
        t += draw(st.integers(1, 3000))
        xs.append(t)
    ys = [xi + draw(st.sampled_from([0, 1, 2, 100, 900, 999, 1000, 1001, 1100, 2000, -1, -1000])) for xi in xs]
    x, y = ('var', 'x'), ('var', 'y')
    c = ('const', draw(st.sampled_from([0.0, 1.0, 1000.0, 900.0, 1001.0])))
    d = ('bin', '-', y, x)
    core = draw(st.sampled_from([
        ('pred', '<=', d, c), ('pred', '>=', d, c), ('pred', '<', x, y), ('pred', '==', d, c), ('pred', '!==', d, c),
        ('pred', '<=', ('un', 'abs', d), c), ('pred', '>', ('bin', '-', ('bin', '+', y, ('const', 1.0)), x), c), ('pred', '>=', y, x),
        ('pred', '<=', ('bin', '-', x, y), ('un', 'neg', c))]))
    ops_un = ['once', 'historically'] + ([] if dense else ['prev', 's_prev', 'rise', 'fall']) + ([] if past_only else ['always', 'eventually'] + ([] if dense else ['next']))
    ops_tun = ['once', 'historically'] + ([] if past_only else ['always', 'eventually'])
    k = draw(st.integers(0, 4 if dense else 5))
    f = core
    if k == 1:
        f = ('un', 'not', core)
    elif k == 2:
        f = ('un', draw(st.sampled_from(ops_un)), core)
    elif k == 3:
        b = draw(st.integers(0, 3))
        f = ('tun', draw(st.sampled_from(ops_tun)), draw(st.integers(0, b)), b, core)
    elif k == 4:
        f = ('bin', draw(st.sampled_from(['and', 'or', 'implies'])), core, ('pred', '<', x, y))
    elif k == 5:
        f = ('bin', 'since', core, ('pred', '>=', d, ('const', 0.0)))
    return {'formula': f, 'vars': vs, 'trace': {'x': xs, 'y': ys}}
