"""User-defined variable types for the structured-variable lane (C17): numbers sit in fields and in fields of fields."""


class Vec(object):
    def __init__(self, x=0.0, y=0.0):
        self.x = x
        self.y = y

    def __repr__(self):
        return 'Vec(%r, %r)' % (self.x, self.y)


class Msg(object):
    def __init__(self, value=0.0, a=0.0, b=0.0, c=0.0):
        self.value = value
        self.pos = Vec(a, b)
        self.aux = Vec(c, 0.0)

    def __repr__(self):
        return 'Msg(%r, %r, %r)' % (self.value, self.pos, self.aux)


# field paths of Msg that hold a number, in the order of the constructor arguments
PATHS = ('value', 'pos.x', 'pos.y', 'aux.x')
