"""Formula model: immutable trees, typed Hypothesis strategies, printers.

A formula is a nested tuple (lists after a JSON round trip are converted back
with `from_json`):

  ('var', name)
  ('const', value)                     value: non-negative float
  ('un', op, f)                        op in UN_ARITH | UN_BOOL | UN_TEMP
  ('bin', op, f, g)                    op in BIN_ARITH | BIN_BOOL | BIN_TEMP
  ('pred', op, f, g)                   op in PREDS
  ('tun', op, a, b, f)                 bounded unary temporal, a <= b ints (grid steps)
  ('tbin', op, a, b, f, g)             bounded since / until / unless / precedes

Bounds are non-negative integers counted in *grid steps* (discrete time: samples;
dense time: multiples of the quantum q).  The printer turns them into text with
a bound printer, so the same tree can be spelled with different units.
"""
import os
from fractions import Fraction

from hypothesis import strategies as st

UN_ARITH = ('abs', 'sqrt', 'exp', 'ln', 'neg')
BIN_ARITH = ('+', '-', '*', '/', 'pow', 'log')
PREDS = ('<=', '<', '>=', '>', '==', '!==')
UN_BOOL = ('not', 'rise', 'fall')
BIN_BOOL = ('and', 'or', 'implies', 'iff', 'xor')
UN_PAST = ('prev', 's_prev', 'once', 'historically')
UN_FUT = ('next', 's_next', 'eventually', 'always')
BIN_PAST = ('since',)
BIN_FUT = ('until',)
TUN_PAST = ('once', 'historically')
TUN_FUT = ('eventually', 'always')
TBIN_PAST = ('since',)
TBIN_FUT = ('until', 'unless')

# identifiers that are not keywords / aliases of the lexer
VAR_POOL = ('x', 'y', 'z', 'w', 'req', 'gnt', 'a1', 'b_2', 'sig', '$v', 'speed', 'p0')


def from_json(o):
    if isinstance(o, (list, tuple)):
        return tuple(from_json(e) for e in o)
    if o == 'inf':
        return float('inf')
    if o == '-inf':
        return float('-inf')
    return o


def children(f):
    k = f[0]
    if k in ('var', 'const'):
        return ()
    if k == 'un':
        return (f[2],)
    if k in ('bin', 'pred'):
        return (f[2], f[3])
    if k == 'tun':
        return (f[4],)
    if k == 'tbin':
        return (f[4], f[5])
    raise ValueError(f)


def rebuild(f, kids):
    k = f[0]
    if k in ('var', 'const'):
        return f
    if k == 'un':
        return (k, f[1], kids[0])
    if k in ('bin', 'pred'):
        return (k, f[1], kids[0], kids[1])
    if k == 'tun':
        return (k, f[1], f[2], f[3], kids[0])
    if k == 'tbin':
        return (k, f[1], f[2], f[3], kids[0], kids[1])
    raise ValueError(f)


def subterms(f):
    yield f
    for c in children(f):
        for s in subterms(c):
            yield s


def op_of(f):
    k = f[0]
    if k == 'var':
        return 'var'
    if k == 'const':
        return 'const'
    if k in ('tun', 'tbin'):
        return f[1] + '[]'
    return f[1]


def ops(f):
    return [op_of(s) for s in subterms(f)]


def fvars(f):
    out = []
    for s in subterms(f):
        if s[0] == 'var' and s[1] not in out:
            out.append(s[1])
    return out


def depth(f):
    cs = children(f)
    return 1 + (max(depth(c) for c in cs) if cs else 0)


def size(f):
    return 1 + sum(size(c) for c in children(f))


TEMPORAL_OPS = set(UN_PAST + UN_FUT + BIN_PAST + BIN_FUT + ('rise', 'fall')) | \
    set(o + '[]' for o in TUN_PAST + TUN_FUT + TBIN_PAST + TBIN_FUT + ('precedes',))
FUTURE_OPS = set(UN_FUT + BIN_FUT) | set(o + '[]' for o in TUN_FUT + TBIN_FUT)
UNBOUNDED_FUTURE = {'eventually', 'always', 'until'}
STATEFUL_ONLINE = {'prev', 's_prev', 'rise', 'fall', 'once', 'historically', 'since',
                   'once[]', 'historically[]', 'since[]', 'precedes[]'}


def n_temporal(f):
    return sum(1 for o in ops(f) if o in TEMPORAL_OPS)


def has_future(f):
    return any(o in FUTURE_OPS for o in ops(f))


def horizon(f):
    """Look-ahead in grid steps (next counts 1); None if unbounded future."""
    k = f[0]
    if k in ('var', 'const'):
        return 0
    hs = [horizon(c) for c in children(f)]
    if any(h is None for h in hs):
        return None
    m = max(hs)
    if k == 'un':
        if f[1] in ('next', 's_next'):
            return m + 1
        if f[1] in ('eventually', 'always'):
            return None
        return m
    if k == 'bin':
        if f[1] == 'until':
            return None
        return m
    if k == 'pred':
        return m
    if k == 'tun':
        return m + f[3] if f[1] in TUN_FUT else m
    if k == 'tbin':
        return m + f[3] if f[1] in TBIN_FUT else m
    raise ValueError(f)


def max_bound(f):
    return max([s[3] for s in subterms(f) if s[0] in ('tun', 'tbin')] or [0])


# --------------------------------------------------------------------------
# printing
# --------------------------------------------------------------------------

def fmt_num(v):
    """Literal for a non-negative finite float, acceptable to the lexer."""
    if v == int(v) and abs(v) < 1e15:
        return str(int(v))
    s = repr(float(v))
    if 'e' in s or 'E' in s:
        s = format(Fraction(v).limit_denominator(10 ** 12).__float__(), '.12f').rstrip('0')
        if s.endswith('.'):
            s += '0'
    return s


def default_bound_printer(a, b):
    return '[%d,%d]' % (a, b)


def make_scaled_bound_printer(q):
    """Bounds are multiples of the Fraction q (time units)."""
    q = Fraction(q)

    def pr(a, b):
        return '[%s,%s]' % (fmt_frac(a * q), fmt_frac(b * q))
    return pr


def fmt_frac(fr):
    fr = Fraction(fr)
    if fr.denominator == 1:
        return str(fr.numerator)
    # finite decimal expected (denominator 2^k 5^m)
    s = format(float(fr), '.12f').rstrip('0')
    if s.endswith('.'):
        s += '0'
    assert Fraction(s) == fr, (s, fr)
    return s


def show(f, bp=default_bound_printer):
    """Canonical, fully parenthesised spelling with keyword operators."""
    k = f[0]
    if k == 'var':
        return f[1]
    if k == 'const':
        return fmt_num(f[1])
    if k == 'un':
        op = f[1]
        if op in ('abs', 'sqrt', 'exp', 'ln', 'rise', 'fall'):
            return '%s(%s)' % (op, show(f[2], bp))
        if op == 'neg':
            return '-(%s)' % show(f[2], bp)
        return '%s (%s)' % (op, show(f[2], bp))
    if k == 'bin':
        if f[1] in ('pow', 'log'):
            return '%s(%s,%s)' % (f[1], show(f[2], bp), show(f[3], bp))
        return '(%s) %s (%s)' % (show(f[2], bp), f[1], show(f[3], bp))
    if k == 'pred':
        return '(%s) %s (%s)' % (show(f[2], bp), f[1], show(f[3], bp))
    if k == 'tun':
        return '%s%s (%s)' % (f[1], bp(f[2], f[3]), show(f[4], bp))
    if k == 'tbin':
        return '(%s) %s%s (%s)' % (show(f[4], bp), f[1], bp(f[2], f[3]), show(f[5], bp))
    raise ValueError(f)


def to_jsonable(o):
    if isinstance(o, (tuple, list)):
        return [to_jsonable(e) for e in o]
    if isinstance(o, dict):
        return {str(k): to_jsonable(v) for k, v in o.items()}
    if isinstance(o, float):
        if o != o:
            return 'nan'
        if o == float('inf'):
            return 'inf'
        if o == float('-inf'):
            return '-inf'
    if isinstance(o, Fraction):
        return str(o)
    return o


# --------------------------------------------------------------------------
# generation
# --------------------------------------------------------------------------

class Profile(object):
    """What the typed grammar may produce."""

    def __init__(self, **kw):
        self.un_arith = UN_ARITH
        self.bin_arith = BIN_ARITH
        self.preds = PREDS
        self.un_bool = ('not',)
        self.events = ('rise', 'fall')
        self.bin_bool = BIN_BOOL
        self.un_temp = UN_PAST + UN_FUT            # unbounded unary temporal + prev/next
        self.bin_temp = BIN_PAST + BIN_FUT
        self.tun = TUN_PAST + TUN_FUT
        self.tbin = TBIN_PAST + ('until',)
        self.max_depth = 4
        self.max_bound = 4
        self.nvars = 3
        self.var_pool = VAR_POOL
        self.reuse = 0.15
        self.arith_weight = 1.0
        self.bare_operand = True      # bare variable / arithmetic term as Boolean-level operand
        self.const_pred_only = False  # every predicate is  var cmp const
        self.temporal_in_arith = True  # FIN temporal formulas may appear under arithmetic
        self.var_bound = 8.0
        self.no_future_under_past = False  # profile switch that was used while the C03 warm-up finding was open (fixed: 0eaf2e3)
        for k, v in kw.items():
            if not hasattr(self, k):
                raise AttributeError(k)
            setattr(self, k, v)

    def copy(self, **kw):
        p = Profile()
        p.__dict__.update(self.__dict__)
        for k, v in kw.items():
            if not hasattr(p, k):
                raise AttributeError(k)
            setattr(p, k, v)
        return p


CONSTS = (0.0, 1.0, 2.0, 3.0, 0.5, 1.5, 4.0, 0.25, 5.0, 2.5, 7.0, 0.125, 10.0)


_PERCENT = st.sampled_from(range(100))


class _Gen(object):
    """Recursive typed builder driven by hypothesis `draw`."""

    def __init__(self, draw, profile, variables):
        self.draw = draw
        self.p = profile
        self.vars = variables
        self.pool = []          # sub-formulas already built: (formula, fin, mag)
        self.nofut = 0          # > 0 while generating the operand of a past operator with memory (profile switch)

    def choice(self, seq):
        return self.draw(st.sampled_from(list(seq)))

    def integer(self, lo, hi):
        return self.draw(st.integers(lo, hi))

    def coin(self, prob):
        if prob <= 0:
            return False
        return self.draw(_PERCENT) < int(round(prob * 100))

    def bounds(self):
        b = self.integer(0, self.p.max_bound)
        a = self.integer(0, b)
        return a, b

    # ---- numeric terms (always FIN); returns (formula, magnitude bound)
    def term(self, depth):
        p = self.p
        if depth <= 1 or self.coin(0.45):
            if self.coin(0.7) or not p.un_arith and not p.bin_arith:
                v = self.choice(self.vars)
                return ('var', v), p.var_bound
            c = self.choice(CONSTS)
            return ('const', c), c
        kinds = []
        if p.un_arith:
            kinds.append('un')
        if p.bin_arith:
            kinds += ['bin', 'bin']
        if p.temporal_in_arith and depth >= 3:
            kinds.append('fin')
        if not kinds:
            v = self.choice(self.vars)
            return ('var', v), p.var_bound
        kind = self.choice(kinds)
        if kind == 'fin':
            f = self.formula(depth - 1, fin=True)
            return f[0], f[2]
        if kind == 'un':
            op = self.choice(p.un_arith)
            e, m = self.term(depth - 1)
            if op == 'abs':
                return ('un', 'abs', e), m
            if op == 'neg':
                return ('un', 'neg', e), m
            if op == 'sqrt':
                return ('un', 'sqrt', ('un', 'abs', e)), max(1.0, m)
            if op == 'exp':
                if m <= 20:
                    import math
                    return ('un', 'exp', e), math.exp(m)
                return ('un', 'abs', e), m
            if op == 'ln':
                return ('un', 'ln', ('bin', '+', ('un', 'abs', e), ('const', 1.0))), max(1.0, m)
        op = self.choice(p.bin_arith)
        l, ml = self.term(depth - 1)
        if op in ('+', '-'):
            r, mr = self.term(depth - 1)
            return ('bin', op, l, r), ml + mr
        if op == '*':
            r, mr = self.term(depth - 1)
            if ml * mr <= 1e12:
                return ('bin', '*', l, r), ml * mr
            return ('bin', '+', l, r), ml + mr
        if op == '/':
            if self.coin(0.5):
                c = self.choice([c for c in CONSTS if c != 0.0])
                return ('bin', '/', l, ('const', c)), ml / c
            r, mr = self.term(depth - 1)
            return ('bin', '/', l, ('bin', '+', ('un', 'abs', r), ('const', 1.0))), ml
        if op == 'pow':
            k = self.choice((0.0, 0.5, 1.0, 2.0))
            base = ('bin', '+', ('un', 'abs', l), ('const', 1.0))
            m = (ml + 1) ** k
            if m <= 1e12:
                return ('bin', 'pow', base, ('const', k)), m
            return ('un', 'abs', l), ml
        if op == 'log':
            c = self.choice((2.0, 10.0))
            arg = ('bin', '+', ('un', 'abs', l), ('const', 2.0))
            # rtamt: log(x, base)
            return ('bin', 'log', arg, ('const', c)), max(2.0, ml)
        raise AssertionError(op)

    def predicate(self, depth):
        p = self.p
        op = self.choice(p.preds)
        if p.const_pred_only:
            v = ('var', self.choice(self.vars))
            c = self.choice(CONSTS)
            cf = ('const', c)
            if self.coin(0.3):
                cf = ('un', 'neg', cf)
            return ('pred', op, v, cf), p.var_bound + c
        l, ml = self.term(depth - 1)
        r, mr = self.term(depth - 1)
        return ('pred', op, l, r), ml + mr

    # ---- formulas; returns (formula, fin, magnitude)
    def formula(self, depth, fin=False):
        p = self.p
        # reuse an already built sub-formula
        if self.pool and self.coin(p.reuse):
            cands = [e for e in self.pool if (e[1] or not fin) and depth_of(e[0]) <= depth
                     and not (self.nofut and has_future(e[0]))]
            if cands:
                return self.choice(cands)
        out = self._formula(depth, fin)
        if out[0][0] not in ('var', 'const'):
            self.pool.append(out)
        return out

    def past_operand(self, depth, fin=False):
        """Operand of a past operator with memory; without future operators if the profile says so."""
        if not self.p.no_future_under_past:
            return self.formula(depth, fin)
        self.nofut += 1
        try:
            return self.formula(depth, fin)
        finally:
            self.nofut -= 1

    def _formula(self, depth, fin):
        p = self.p
        if depth <= 1:
            if p.bare_operand and not p.const_pred_only:
                v = self.choice(self.vars)
                return ('var', v), True, p.var_bound
            depth = 2
        if depth <= 2 or self.coin(0.08):
            if p.bare_operand and not p.const_pred_only and self.coin(0.15):
                e, m = self.term(depth)
                return e, True, m
            f, m = self.predicate(depth)
            return f, True, m
        kinds = []
        if p.un_bool:
            kinds.append('not')
        if p.events:
            kinds.append('event')
        if p.bin_bool:
            kinds += ['bool', 'bool']
        un_t = [o for o in p.un_temp if not fin or o in ('once', 'historically', 'eventually', 'always')]
        bin_t, tun_t, tbin_t = list(p.bin_temp), list(p.tun), list(p.tbin)
        if self.nofut:
            un_t = [o for o in un_t if o not in UN_FUT]
            bin_t = [o for o in bin_t if o not in BIN_FUT]
            tun_t = [o for o in tun_t if o not in TUN_FUT]
            tbin_t = [o for o in tbin_t if o not in TBIN_FUT]
        if un_t:
            kinds += ['unt', 'unt']
        if bin_t:
            kinds += ['bint']
        if not fin:
            if tun_t:
                kinds += ['tun', 'tun', 'tun']
            if tbin_t:
                kinds += ['tbin', 'tbin']
        elif p.temporal_in_arith and any(o in TUN_PAST for o in tun_t):
            # a bounded past operator whose window starts at 0 always contains the current sample: finite over a finite
            # operand, so it may stand below arithmetic, comparisons, iff and xor ((once[0,2] x) - (historically[0,2] x) <= 1).
            # (Bounded future operators stay out: after pastify() the warm-up values of their delayed siblings are infinite
            # and inf - inf is NaN; C03 and C20 build such terms explicitly where the warm-up is not compared.)
            kinds += ['tun0']
        if not kinds:
            f, m = self.predicate(depth)
            return f, True, m
        kind = self.choice(kinds)
        if kind == 'not':
            c, cf, m = self.formula(depth - 1, fin)
            return ('un', 'not', c), cf, m
        if kind == 'event':
            op = self.choice(p.events)
            # rise/fall of a FIN operand is FIN; of an ANY operand ANY
            c, cf, m = self.past_operand(depth - 1, fin)
            return ('un', op, c), cf, m
        if kind == 'bool':
            op = self.choice(p.bin_bool)
            need_fin = fin or op in ('iff', 'xor')
            l, lf, ml = self.formula(depth - 1, need_fin)
            r, rf, mr = self.formula(depth - 1, need_fin)
            m = ml + mr if op in ('iff', 'xor') else max(ml, mr)
            return ('bin', op, l, r), lf and rf, m
        if kind == 'unt':
            op = self.choice(un_t)
            if op in UN_PAST:
                c, cf, m = self.past_operand(depth - 1, fin)
            else:
                c, cf, m = self.formula(depth - 1, fin)
            if op in ('prev', 's_prev', 'next', 's_next'):
                return ('un', op, c), False, m
            return ('un', op, c), cf, m
        if kind == 'bint':
            op = self.choice(bin_t)
            sub = self.past_operand if op in BIN_PAST else self.formula
            l, lf, ml = sub(depth - 1, fin)
            r, rf, mr = sub(depth - 1, fin)
            return ('bin', op, l, r), lf and rf, max(ml, mr)
        if kind == 'tun0':
            op = self.choice([o for o in tun_t if o in TUN_PAST])
            b = self.integer(0, self.p.max_bound)
            sub = self.past_operand if op in TUN_PAST else self.formula
            c, cf, m = sub(depth - 1, True)
            return ('tun', op, 0, b, c), True, m
        if kind == 'tun':
            op = self.choice(tun_t)
            a, b = self.bounds()
            sub = self.past_operand if op in TUN_PAST else self.formula
            c, cf, m = sub(depth - 1, False)
            return ('tun', op, a, b, c), False, m
        if kind == 'tbin':
            op = self.choice(tbin_t)
            a, b = self.bounds()
            sub = self.past_operand if op in TBIN_PAST else self.formula
            l, lf, ml = sub(depth - 1, False)
            r, rf, mr = sub(depth - 1, False)
            return ('tbin', op, a, b, l, r), False, max(ml, mr)
        raise AssertionError(kind)


def depth_of(f):
    return depth(f)


@st.composite
def formulas(draw, profile, variables=None, fin=False):
    """Draw (formula, variables) from the typed grammar of `profile`."""
    if variables is None:
        n = draw(st.integers(1, profile.nvars))
        start = draw(st.integers(0, len(profile.var_pool) - 1))
        variables = [profile.var_pool[(start + i) % len(profile.var_pool)] for i in range(n)]
    g = _Gen(draw, profile, variables)
    d = draw(st.sampled_from([2] + list(range(3, profile.max_depth + 1)) * 3))
    f, _fin, _m = g.formula(d, fin)
    return f, list(variables)


# --------------------------------------------------------------------------
# data
# --------------------------------------------------------------------------

def tiny_values():
    """Few distinct small values: ties, zeros and repeated samples are frequent."""
    return st.sampled_from([0.0, 0.0, 1.0, -1.0, 2.0, -2.0, 0.5, 3.0])


def float_values():
    """Arbitrary finite doubles of moderate magnitude (non-dyadic decimals, tiny and large values)."""
    return st.one_of(
        st.floats(min_value=-1e6, max_value=1e6, allow_nan=False, allow_infinity=False),
        st.floats(min_value=-1.0, max_value=1.0, allow_nan=False, allow_infinity=False),
        st.sampled_from([0.1, 0.2, 0.3, -0.1, 1e-9, -1e-9, 1e6, -1e6, 0.30000000000000004, 1.0 / 3.0, 2.0 / 3.0, 1e-300, 123456.789]),
    )


def values(var_bound=8.0):
    if var_bound >= 1e6:
        return float_values()
    small = st.integers(-16, 16).map(lambda k: k / 2.0)
    fine = st.integers(-64, 64).map(lambda k: k / 8.0)
    if var_bound > 8.0:
        big = st.integers(-int(var_bound), int(var_bound)).map(float)
        return st.one_of(small, small, fine, big)
    return st.one_of(small, small, fine)


def trace_lengths(max_n, min_n=1):
    """Lengths skewed towards the short traces (1, 2, 3) but covering min_n..max_n."""
    pool = [n for n in (1, 2, 2, 3, 3, 4) if min_n <= n <= max_n] + list(range(min_n, max_n + 1)) * 2
    return st.sampled_from(pool)


@st.composite
def traces(draw, variables, max_n=12, n=None, var_bound=8.0):
    if n is None:
        n = draw(trace_lengths(max_n))
    # one trace in five uses very few distinct values (zeros, ties, plateaus)
    vs = tiny_values() if (var_bound < 1e6 and draw(st.integers(0, 4)) == 0) else values(var_bound)
    out = {}
    for v in variables:
        out[v] = draw(st.lists(vs, min_size=n, max_size=n))
    return out
