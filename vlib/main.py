import sys
from .runner import main
sys.exit(main())
