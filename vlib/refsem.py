"""Reference semantics (the oracles).

R-dt   : discrete-time robustness, literal transcription of the README's
         inductive definition (quadratic, no incremental state).
R-bool : Boolean satisfaction, written separately (no shared helper with R-dt).
R-ct   : dense-time robustness on a rational grid (cells of width q).

Conventions (property text > README > suite):
  prev/next weak (+inf at the boundary), s_prev/s_next strong (-inf);
  bounded past window  [t-b, t-a] /\\ [0, t],  future  [t+a, t+b] /\\ [0, n-1];
  empty window: -inf for once/eventually/since/until, +inf for historically/always;
  discrete since: phi on (t', t];  until: phi on [t, t');
  dense since/until: non-strict (phi on the closed interval), as the suite pins;
  rise/fall at t = 0: value of the operand, resp. its negation;
  unless[a,b] = always[0,b] phi or phi until[a,b] psi;
  precedes[a,b] (only produced by pastify): past mirror of until[a,b] delayed by b.
"""
import math

INF = float('inf')


class Undefined(Exception):
    """The reference meets NaN / overflow / a math-domain error: case is discarded."""


def _chk(v):
    if v != v:
        raise Undefined('nan')
    return v


def _arith_un(op, v):
    try:
        if op == 'abs':
            return abs(v)
        if op == 'neg':
            return -v
        if op == 'sqrt':
            return math.sqrt(v)
        if op == 'exp':
            if SATURATE:
                try:
                    return math.exp(v)
                except OverflowError:
                    return INF
            return math.exp(v)
        if op == 'ln':
            return math.log(v)
    except (ValueError, OverflowError, ZeroDivisionError) as e:
        raise Undefined(str(e))
    raise ValueError(op)


# When True, a power / exponential that exceeds the float range is the correctly signed infinity instead of undefined
# (used where a monitor's answer for such a sample is judged by its sign; a monitor that raises is a data fault as before).
SATURATE = False


def _arith_bin(op, a, b):
    if SATURATE and op == 'pow':
        try:
            return math.pow(a, b)
        except OverflowError:
            odd = float(b).is_integer() and int(b) % 2 == 1
            return -INF if (a < 0 and odd) else INF
        except (ValueError, ZeroDivisionError) as e:
            raise Undefined(str(e))
    try:
        if op == '+':
            return a + b
        if op == '-':
            return a - b
        if op == '*':
            return a * b
        if op == '/':
            return a / b
        if op == 'pow':
            return math.pow(a, b)
        if op == 'log':
            return math.log(a, b)
    except (ValueError, OverflowError, ZeroDivisionError) as e:
        raise Undefined(str(e))
    raise ValueError(op)


def _pred(op, l, r):
    if op in ('<=', '<'):
        return r - l
    if op in ('>=', '>'):
        return l - r
    if op == '==':
        return -abs(l - r)
    if op == '!==':
        return abs(l - r)
    raise ValueError(op)


def _sat(op, l, r):
    if op == '<=':
        return l <= r
    if op == '<':
        return l < r
    if op == '>=':
        return l >= r
    if op == '>':
        return l > r
    if op == '==':
        return l == r
    if op == '!==':
        return l != r
    raise ValueError(op)


def _mx(xs):
    xs = list(xs)
    return max(xs) if xs else -INF


def _mn(xs):
    xs = list(xs)
    return min(xs) if xs else INF


# IA-STL: `ia` = None (standard) or (semantics, io) with semantics in
# 'output_robustness' 'input_robustness' 'output_vacuity' 'input_vacuity' and io a dict var -> 'input'|'output'

def _ia_insensitive(f, ia):
    """True if predicate f is insensitive under the interface-aware semantics ia."""
    from .formula import fvars
    sem, io = ia
    vs = fvars(f)
    if sem.startswith('output'):
        return not any(io.get(v, 'output') == 'output' for v in vs)
    return not any(io.get(v, 'output') == 'input' for v in vs)


# When True, samples that are Python integers stay integers (exact arithmetic beyond 2**53, as in rtamt, which computes with
# the numbers it is given); used by the bigint lanes only.
KEEP_INTEGERS = False


def dt(f, w, n, ia=None, memo=None):
    """Discrete-time robustness of f on trace w (dict var -> list of n floats): list of n values."""
    if memo is None:
        memo = {}
    key = f
    if key in memo:
        return memo[key]
    out = _dt(f, w, n, ia, memo)
    for v in out:
        _chk(v)
    memo[key] = out
    return out


def _dt(f, w, n, ia, memo):
    k = f[0]
    R = range(n)
    if k == 'var':
        if KEEP_INTEGERS:
            return [v if isinstance(v, int) and not isinstance(v, bool) else float(v) for v in w[f[1]]]
        return [float(v) for v in w[f[1]]]
    if k == 'const':
        return [float(f[1])] * n
    if k == 'pred':
        l = dt(f[2], w, n, ia, memo)
        r = dt(f[3], w, n, ia, memo)
        if ia is not None and _ia_insensitive(f, ia):
            if ia[0].endswith('vacuity'):
                return [0.0 for i in R]
            return [INF if _sat(f[1], l[i], r[i]) else -INF for i in R]
        return [_pred(f[1], l[i], r[i]) for i in R]
    if k == 'un':
        op = f[1]
        x = dt(f[2], w, n, ia, memo)
        if op in ('abs', 'neg', 'sqrt', 'exp', 'ln'):
            return [_arith_un(op, v) for v in x]
        if op == 'not':
            return [-v for v in x]
        if op == 'rise':
            return [x[0]] + [min(-x[i - 1], x[i]) for i in range(1, n)]
        if op == 'fall':
            return [-x[0]] + [min(x[i - 1], -x[i]) for i in range(1, n)]
        if op == 'prev':
            return [INF] + x[:-1]
        if op == 's_prev':
            return [-INF] + x[:-1]
        if op == 'next':
            return x[1:] + [INF]
        if op == 's_next':
            return x[1:] + [-INF]
        if op == 'once':
            return [max(x[:i + 1]) for i in R]
        if op == 'historically':
            return [min(x[:i + 1]) for i in R]
        if op == 'eventually':
            return [max(x[i:]) for i in R]
        if op == 'always':
            return [min(x[i:]) for i in R]
        raise ValueError(op)
    if k == 'bin':
        op = f[1]
        l = dt(f[2], w, n, ia, memo)
        r = dt(f[3], w, n, ia, memo)
        if op in ('+', '-', '*', '/', 'pow', 'log'):
            return [_arith_bin(op, a, b) for a, b in zip(l, r)]
        if op == 'and':
            return [min(a, b) for a, b in zip(l, r)]
        if op == 'or':
            return [max(a, b) for a, b in zip(l, r)]
        if op == 'implies':
            return [max(-a, b) for a, b in zip(l, r)]
        if op == 'iff':
            return [-abs(a - b) for a, b in zip(l, r)]
        if op == 'xor':
            return [abs(a - b) for a, b in zip(l, r)]
        if op == 'since':
            return [_mx(min([r[j]] + l[j + 1:i + 1]) for j in range(0, i + 1)) for i in R]
        if op == 'until':
            return [_mx(min([r[j]] + l[i:j]) for j in range(i, n)) for i in R]
        raise ValueError(op)
    if k == 'tun':
        op, a, b = f[1], f[2], f[3]
        x = dt(f[4], w, n, ia, memo)
        out = []
        for i in R:
            if op in ('once', 'historically'):
                win = [x[j] for j in range(i - b, i - a + 1) if 0 <= j < n]
            else:
                win = [x[j] for j in range(i + a, i + b + 1) if 0 <= j < n]
            out.append(_mx(win) if op in ('once', 'eventually') else _mn(win))
        return out
    if k == 'tbin':
        op, a, b = f[1], f[2], f[3]
        l = dt(f[4], w, n, ia, memo)
        r = dt(f[5], w, n, ia, memo)
        out = []
        for i in R:
            if op == 'since':
                v = _mx(min([r[j]] + l[j + 1:i + 1]) for j in range(i - b, i - a + 1) if 0 <= j < n)
            elif op == 'until':
                v = _mx(min([r[j]] + l[i:j]) for j in range(i + a, i + b + 1) if 0 <= j < n)
            elif op == 'unless':
                u = _mx(min([r[j]] + l[i:j]) for j in range(i + a, i + b + 1) if 0 <= j < n)
                g = _mn(l[j] for j in range(i, i + b + 1) if 0 <= j < n)
                v = max(g, u)
            else:
                raise ValueError(op)
            out.append(v)
        return out
    raise ValueError(f)


# --------------------------------------------------------------------------
# Boolean satisfaction, discrete time (independent of dt above)
# --------------------------------------------------------------------------

def bool_dt(f, w, n, memo=None):
    """Truth value of a Boolean-level formula at every sample.
    Numeric sub-terms are evaluated with num_dt.  A bare numeric term used as a
    Boolean operand is read as  term > 0 / term < 0 : undefined at 0 -> None
    (three-valued; None = unknown)."""
    if memo is None:
        memo = {}
    if f in memo:
        return memo[f]
    out = _bool_dt(f, w, n, memo)
    memo[f] = out
    return out


def _and3(a, b):
    if a is False or b is False:
        return False
    if a is None or b is None:
        return None
    return True


def _or3(a, b):
    if a is True or b is True:
        return True
    if a is None or b is None:
        return None
    return False


def _not3(a):
    return None if a is None else (not a)


def _all3(xs):
    r = True
    for x in xs:
        r = _and3(r, x)
    return r


def _any3(xs):
    r = False
    for x in xs:
        r = _or3(r, x)
    return r


def num_dt(f, w, n):
    """Value of a numeric term (no Boolean / temporal operator inside)."""
    k = f[0]
    if k == 'var':
        return [float(v) for v in w[f[1]]]
    if k == 'const':
        return [float(f[1])] * n
    if k == 'un' and f[1] in ('abs', 'neg', 'sqrt', 'exp', 'ln'):
        return [_arith_un(f[1], v) for v in num_dt(f[2], w, n)]
    if k == 'bin' and f[1] in ('+', '-', '*', '/', 'pow', 'log'):
        return [_arith_bin(f[1], a, b) for a, b in zip(num_dt(f[2], w, n), num_dt(f[3], w, n))]
    raise NotNumeric(f)


class NotNumeric(Exception):
    pass


def _bool_dt(f, w, n, memo):
    k = f[0]
    R = range(n)
    if k in ('var', 'const') or (k == 'un' and f[1] in ('abs', 'neg', 'sqrt', 'exp', 'ln')) or \
            (k == 'bin' and f[1] in ('+', '-', '*', '/', 'pow', 'log')):
        x = num_dt(f, w, n)
        return [True if v > 0 else (False if v < 0 else None) for v in x]
    if k == 'pred':
        l = num_dt(f[2], w, n)
        r = num_dt(f[3], w, n)
        return [_sat(f[1], l[i], r[i]) for i in R]
    if k == 'un':
        op = f[1]
        x = bool_dt(f[2], w, n, memo)
        if op == 'not':
            return [_not3(v) for v in x]
        if op == 'rise':
            return [x[0]] + [_and3(_not3(x[i - 1]), x[i]) for i in range(1, n)]
        if op == 'fall':
            return [_not3(x[0])] + [_and3(x[i - 1], _not3(x[i])) for i in range(1, n)]
        if op == 'prev':
            return [True] + x[:-1]
        if op == 's_prev':
            return [False] + x[:-1]
        if op == 'next':
            return x[1:] + [True]
        if op == 's_next':
            return x[1:] + [False]
        if op == 'once':
            return [_any3(x[:i + 1]) for i in R]
        if op == 'historically':
            return [_all3(x[:i + 1]) for i in R]
        if op == 'eventually':
            return [_any3(x[i:]) for i in R]
        if op == 'always':
            return [_all3(x[i:]) for i in R]
        raise ValueError(op)
    if k == 'bin':
        op = f[1]
        l = bool_dt(f[2], w, n, memo)
        r = bool_dt(f[3], w, n, memo)
        if op == 'and':
            return [_and3(a, b) for a, b in zip(l, r)]
        if op == 'or':
            return [_or3(a, b) for a, b in zip(l, r)]
        if op == 'implies':
            return [_or3(_not3(a), b) for a, b in zip(l, r)]
        if op == 'iff':
            return [None if a is None or b is None else (a == b) for a, b in zip(l, r)]
        if op == 'xor':
            return [None if a is None or b is None else (a != b) for a, b in zip(l, r)]
        if op == 'since':
            return [_any3(_and3(r[j], _all3(l[j + 1:i + 1])) for j in range(0, i + 1)) for i in R]
        if op == 'until':
            return [_any3(_and3(r[j], _all3(l[i:j])) for j in range(i, n)) for i in R]
        raise ValueError(op)
    if k == 'tun':
        op, a, b = f[1], f[2], f[3]
        x = bool_dt(f[4], w, n, memo)
        out = []
        for i in R:
            if op in ('once', 'historically'):
                js = [j for j in range(i - b, i - a + 1) if 0 <= j < n]
            else:
                js = [j for j in range(i + a, i + b + 1) if 0 <= j < n]
            if op in ('once', 'eventually'):
                out.append(_any3(x[j] for j in js))
            else:
                out.append(_all3(x[j] for j in js))
        return out
    if k == 'tbin':
        op, a, b = f[1], f[2], f[3]
        l = bool_dt(f[4], w, n, memo)
        r = bool_dt(f[5], w, n, memo)
        out = []
        for i in R:
            if op == 'since':
                v = _any3(_and3(r[j], _all3(l[j + 1:i + 1])) for j in range(i - b, i - a + 1) if 0 <= j < n)
            elif op in ('until', 'unless'):
                v = _any3(_and3(r[j], _all3(l[i:j])) for j in range(i + a, i + b + 1) if 0 <= j < n)
                if op == 'unless':
                    v = _or3(v, _all3(l[j] for j in range(i, i + b + 1) if 0 <= j < n))
            else:
                raise ValueError(op)
            out.append(v)
        return out
    raise ValueError(f)


# --------------------------------------------------------------------------
# comparison helpers
# --------------------------------------------------------------------------

TRANSCENDENTAL = {'sqrt', 'exp', 'ln', 'pow', 'log', '/'}


def needs_tolerance(f):
    from .formula import ops
    return any(o in TRANSCENDENTAL for o in ops(f))


def same(a, b, tol):
    """Equality of two robustness values; nan never accepted."""
    if a != a or b != b:
        return False
    if a == b:
        return True
    if not tol:
        return False
    if a in (INF, -INF) or b in (INF, -INF):
        return False
    return abs(a - b) <= 1e-12 + 1e-9 * max(abs(a), abs(b))


# --------------------------------------------------------------------------
# R-ct: dense-time robustness on a rational grid
# --------------------------------------------------------------------------
#
# All time stamps are integer multiples of the quantum q and all bounds are
# integer numbers of cells, so every sub-formula is constant on each cell
# [k q, (k+1) q).  For t in cell i the closed window [t+a, t+b] meets exactly
# the cells i+a .. i+b.  Signals are given in cells: var -> list of (k, value)
# with strictly increasing integer k.  Each signal is held at its last value
# beyond its last sample ("finitary interpretation").

def total_bounds(f):
    from .formula import subterms
    return sum(s[3] for s in subterms(f) if s[0] in ('tun', 'tbin'))


def ct_cells(f, sig, ia=None):
    """Returns (K0, Kend, values) where values[i] is rho(f) on cell K0+i, for the
    cells K0 .. Kmax + total_bounds + 1.  K0 = common start (all signals must start there),
    Kend = earliest last sample of the variables used by f (the compared domain is [K0, Kend])."""
    from .formula import fvars
    used = fvars(f)
    starts = set(sig[v][0][0] for v in used)
    if len(starts) > 1:
        raise ValueError('signals of one case start together')
    K0 = starts.pop() if starts else 0
    Kend = min(sig[v][-1][0] for v in used) if used else K0
    Kmax = max(sig[v][-1][0] for v in used) if used else K0
    N = Kmax + total_bounds(f) + 1 - K0 + 1
    memo = {}

    def var(name):
        s = sig[name]
        out = []
        j = 0
        for k in range(K0, K0 + N):
            while j + 1 < len(s) and s[j + 1][0] <= k:
                j += 1
            out.append(float(s[j][1]))
        return out

    def ev(f):
        if f in memo:
            return memo[f]
        out = _ev(f)
        for v in out:
            _chk(v)
        memo[f] = out
        return out

    def _ev(f):
        k = f[0]
        R = range(N)
        if k == 'var':
            return var(f[1])
        if k == 'const':
            return [float(f[1])] * N
        if k == 'pred':
            l = ev(f[2])
            r = ev(f[3])
            if ia is not None and _ia_insensitive(f, ia):
                if ia[0].endswith('vacuity'):
                    return [0.0 for i in R]
                return [INF if _sat(f[1], l[i], r[i]) else -INF for i in R]
            return [_pred(f[1], l[i], r[i]) for i in R]
        if k == 'un':
            op = f[1]
            x = ev(f[2])
            if op in ('abs', 'neg', 'sqrt', 'exp', 'ln'):
                return [_arith_un(op, v) for v in x]
            if op == 'not':
                return [-v for v in x]
            if op == 'once':
                return [max(x[:i + 1]) for i in R]
            if op == 'historically':
                return [min(x[:i + 1]) for i in R]
            if op == 'eventually':
                return [max(x[i:]) for i in R]
            if op == 'always':
                return [min(x[i:]) for i in R]
            raise ValueError('dense: ' + op)
        if k == 'bin':
            op = f[1]
            l = ev(f[2])
            r = ev(f[3])
            if op in ('+', '-', '*', '/', 'pow', 'log'):
                return [_arith_bin(op, a, b) for a, b in zip(l, r)]
            if op == 'and':
                return [min(a, b) for a, b in zip(l, r)]
            if op == 'or':
                return [max(a, b) for a, b in zip(l, r)]
            if op == 'implies':
                return [max(-a, b) for a, b in zip(l, r)]
            if op == 'iff':
                return [-abs(a - b) for a, b in zip(l, r)]
            if op == 'xor':
                return [abs(a - b) for a, b in zip(l, r)]
            if op == 'since':
                return [_mx(min([r[j]] + l[j:i + 1]) for j in range(0, i + 1)) for i in R]
            if op == 'until':
                return [_mx(min([r[j]] + l[i:j + 1]) for j in range(i, N)) for i in R]
            raise ValueError('dense: ' + op)
        if k == 'tun':
            op, a, b = f[1], f[2], f[3]
            x = ev(f[4])
            out = []
            for i in R:
                if op in ('once', 'historically'):
                    win = [x[j] for j in range(i - b, i - a + 1) if 0 <= j]
                else:
                    win = [x[min(j, N - 1)] for j in range(i + a, i + b + 1)]
                out.append(_mx(win) if op in ('once', 'eventually') else _mn(win))
            return out
        if k == 'tbin':
            op, a, b = f[1], f[2], f[3]
            l = ev(f[4])
            r = ev(f[5])
            out = []
            for i in R:
                if op == 'since':
                    v = _mx(min([r[j]] + l[j:i + 1]) for j in range(i - b, i - a + 1) if 0 <= j)
                elif op in ('until', 'unless'):
                    v = _mx(min([r[min(j, N - 1)]] + l[i:min(j, N - 1) + 1]) for j in range(i + a, i + b + 1))
                    if op == 'unless':
                        v = max(v, _mn(l[min(j, N - 1)] for j in range(i, i + b + 1)))
                else:
                    raise ValueError('dense: ' + op)
                out.append(v)
            return out
        raise ValueError(f)

    return K0, Kend, ev(f)


def step_at(samples, t):
    """Value at time t of the right-continuous step function denoted by a sample list (None before its start)."""
    v = None
    for s in samples:
        if s[0] <= t:
            v = s[1]
        else:
            break
    return v


def bool_ct(f, sig):
    """Boolean satisfaction on grid cells (three-valued like bool_dt); same domain conventions as ct_cells.
    Returns (K0, Kend, values)."""
    from .formula import fvars
    used = fvars(f)
    K0 = min(sig[v][0][0] for v in used) if used else 0
    Kend = min(sig[v][-1][0] for v in used) if used else K0
    Kmax = max(sig[v][-1][0] for v in used) if used else K0
    N = Kmax + total_bounds(f) + 1 - K0 + 1
    memo = {}

    def var(name):
        s = sig[name]
        out = []
        j = 0
        for k in range(K0, K0 + N):
            while j + 1 < len(s) and s[j + 1][0] <= k:
                j += 1
            out.append(float(s[j][1]))
        return out

    def num(g):
        k = g[0]
        if k == 'var':
            return var(g[1])
        if k == 'const':
            return [float(g[1])] * N
        if k == 'un' and g[1] in ('abs', 'neg', 'sqrt', 'exp', 'ln'):
            return [_arith_un(g[1], v) for v in num(g[2])]
        if k == 'bin' and g[1] in ('+', '-', '*', '/', 'pow', 'log'):
            return [_arith_bin(g[1], a, b) for a, b in zip(num(g[2]), num(g[3]))]
        raise NotNumeric(g)

    def ev(g):
        if g in memo:
            return memo[g]
        memo[g] = out = _ev(g)
        return out

    def _ev(g):
        k = g[0]
        R = range(N)
        if k in ('var', 'const') or (k == 'un' and g[1] in ('abs', 'neg', 'sqrt', 'exp', 'ln')) or \
                (k == 'bin' and g[1] in ('+', '-', '*', '/', 'pow', 'log')):
            return [True if v > 0 else (False if v < 0 else None) for v in num(g)]
        if k == 'pred':
            l, r = num(g[2]), num(g[3])
            return [_sat(g[1], l[i], r[i]) for i in R]
        if k == 'un':
            op = g[1]
            x = ev(g[2])
            if op == 'not':
                return [_not3(v) for v in x]
            if op == 'once':
                return [_any3(x[:i + 1]) for i in R]
            if op == 'historically':
                return [_all3(x[:i + 1]) for i in R]
            if op == 'eventually':
                return [_any3(x[i:]) for i in R]
            if op == 'always':
                return [_all3(x[i:]) for i in R]
            raise ValueError(op)
        if k == 'bin':
            op = g[1]
            l, r = ev(g[2]), ev(g[3])
            if op == 'and':
                return [_and3(a, b) for a, b in zip(l, r)]
            if op == 'or':
                return [_or3(a, b) for a, b in zip(l, r)]
            if op == 'implies':
                return [_or3(_not3(a), b) for a, b in zip(l, r)]
            if op == 'since':
                return [_any3(_and3(r[j], _all3(l[j:i + 1])) for j in range(0, i + 1)) for i in R]
            if op == 'until':
                return [_any3(_and3(r[j], _all3(l[i:j + 1])) for j in range(i, N)) for i in R]
            raise ValueError(op)
        if k == 'tun':
            op, a, b = g[1], g[2], g[3]
            x = ev(g[4])
            out = []
            for i in R:
                if op in ('once', 'historically'):
                    js = [j for j in range(i - b, i - a + 1) if 0 <= j]
                else:
                    js = [min(j, N - 1) for j in range(i + a, i + b + 1)]
                out.append(_any3(x[j] for j in js) if op in ('once', 'eventually') else _all3(x[j] for j in js))
            return out
        if k == 'tbin':
            op, a, b = g[1], g[2], g[3]
            l, r = ev(g[4]), ev(g[5])
            out = []
            for i in R:
                if op == 'since':
                    v = _any3(_and3(r[j], _all3(l[j:i + 1])) for j in range(i - b, i - a + 1) if 0 <= j)
                elif op == 'until':
                    v = _any3(_and3(r[min(j, N - 1)], _all3(l[i:min(j, N - 1) + 1])) for j in range(i + a, i + b + 1))
                else:
                    raise ValueError(op)
                out.append(v)
            return out
        raise ValueError(g)

    return K0, Kend, ev(f)
