"""Coverage-guided fuzzing of the parser front end (atheris / libFuzzer) with the C14 oracle inside the target.

Usage (normally started by the `atheris` lane of C14):
    python -m vlib.fuzz_c14 <out.json> <corpus dir> -runs=N -seed=S [-max_len=..]

Bytes are decoded into a sequence of vocabulary tokens (a data-provider layer), joined into a text and given to
vlib.props.C14.check; the first failing case is written to <out.json> and the process exits with status 77.
State is fresh per iteration (a new specification object per text).
"""
import json
import os
import sys


def main():
    out_path = sys.argv[1]
    argv = [sys.argv[0]] + sys.argv[2:]
    import atheris
    with atheris.instrument_imports(include=['rtamt']):
        import rtamt  # noqa: F401
        from vlib.props import C14
    from vlib import lang

    vocab = [s for _n, s in lang.LITERALS if _n not in ('LBRACE', 'RBRACE', 'DOT', 'AT')] + \
        ['x', 'y', 'out', 'kc', 'x.y', '1', '0', '2.5', '.5', '1e3', '0x1F', '3', '(', ')', '[', ']', ',', ';', '=', '(', ')', '#', '~']
    counter = {'n': 0, 'accepted': 0}

    def one(data):
        fdp = atheris.FuzzedDataProvider(data)
        n = fdp.ConsumeIntInRange(1, 48)
        toks = []
        for _ in range(n):
            if fdp.remaining_bytes() == 0:
                break
            toks.append(vocab[fdp.ConsumeIntInRange(0, len(vocab) - 1)])
        if not toks:
            return
        case = {'tokens': toks, 'declare': ['x'], 'consts': [['kc', 'int', '2']]}
        counter['n'] += 1
        v = C14.check(case)
        if 'accepted' in (v.labels or ()):
            counter['accepted'] += 1
        if v.status == 'fail':
            with open(out_path, 'w') as fh:
                json.dump({'key': v.key, 'detail': v.detail, 'case': case, 'executions': counter['n']}, fh)
            sys.stdout.flush()
            os._exit(77)

    import atexit  # noqa: F401  (atexit handlers do not run under libFuzzer: write the counters eagerly)

    def one_counted(data):
        one(data)
        if counter['n'] % 500 == 0:
            with open(out_path + '.count', 'w') as fh:
                json.dump(counter, fh)

    atheris.Setup(argv, one_counted)
    atheris.Fuzz()


if __name__ == '__main__':
    main()
